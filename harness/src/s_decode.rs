use crate::util::*;
use h263_rs::parser::H263Reader;
use h263_rs::verif_hooks::{
    DecodedPicture, MotionVectorRange, Picture, PictureTypeCode, PixelAspectRatio, SourceFormat,
};
use h263_rs::{DecoderOption, Error, H263State};
use std::cell::RefCell;
use std::collections::VecDeque;
use std::io::{Read, Write};
use std::rc::Rc;

/// A source that can grow between reads; an empty source reports end of data.  The second field is the
/// state of a xorshift generator: when non-zero every `read` hands out only 1..3 bytes (a legal short read,
/// as a pipe, socket or chained reader would), otherwise as many as are there.
#[derive(Clone)]
pub struct Grow(pub Rc<RefCell<VecDeque<u8>>>, pub Rc<std::cell::Cell<u64>>);
impl Grow {
    pub fn new(q: VecDeque<u8>, dribble: u64) -> Self {
        Grow(Rc::new(RefCell::new(q)), Rc::new(std::cell::Cell::new(dribble)))
    }
}
impl Read for Grow {
    fn read(&mut self, buf: &mut [u8]) -> std::io::Result<usize> {
        let mut q = self.0.borrow_mut();
        let mut limit = buf.len();
        let mut s = self.1.get();
        if s != 0 {
            s ^= s << 13;
            s ^= s >> 7;
            s ^= s << 17;
            self.1.set(s);
            limit = limit.min(1 + (s % 3) as usize);
        }
        let mut n = 0;
        while n < limit {
            match q.pop_front() {
                Some(b) => {
                    buf[n] = b;
                    n += 1;
                }
                None => break,
            }
        }
        Ok(n)
    }
}

pub fn fnv(d: &[u8]) -> String {
    let mut h: u64 = 0xcbf29ce484222325;
    for b in d {
        h ^= *b as u64;
        h = h.wrapping_mul(0x100000001b3);
    }
    format!("{:016x}", h)
}

fn opt<T>(o: &Option<T>, f: impl Fn(&T) -> String) -> String {
    match o {
        None => "-".to_string(),
        Some(x) => f(x),
    }
}

fn par_str(p: &PixelAspectRatio) -> String {
    match p {
        PixelAspectRatio::Square => "Sq".into(),
        PixelAspectRatio::Par12_11 => "12_11".into(),
        PixelAspectRatio::Par10_11 => "10_11".into(),
        PixelAspectRatio::Par16_11 => "16_11".into(),
        PixelAspectRatio::Par40_33 => "40_33".into(),
        PixelAspectRatio::Reserved(r) => format!("R({})", r),
        PixelAspectRatio::Extended { par_width, par_height } => format!("X({},{})", par_width, par_height),
    }
}

pub fn fmt_str(f: &SourceFormat) -> String {
    match f {
        SourceFormat::SubQcif => "Sub".into(),
        SourceFormat::QuarterCif => "Q".into(),
        SourceFormat::FullCif => "F".into(),
        SourceFormat::FourCif => "4".into(),
        SourceFormat::SixteenCif => "16".into(),
        SourceFormat::Reserved => "Res".into(),
        SourceFormat::Extended(c) => format!(
            "Ext({},{},{})",
            par_str(&c.pixel_aspect_ratio),
            c.picture_width_indication,
            c.picture_height_indication
        ),
    }
}

fn type_str(t: &PictureTypeCode) -> String {
    match t {
        PictureTypeCode::IFrame => "I".into(),
        PictureTypeCode::PFrame => "P".into(),
        PictureTypeCode::PbFrame => "PB".into(),
        PictureTypeCode::ImprovedPbFrame => "IPB".into(),
        PictureTypeCode::BFrame => "B".into(),
        PictureTypeCode::EiFrame => "EI".into(),
        PictureTypeCode::EpFrame => "EP".into(),
        PictureTypeCode::Reserved(r) => format!("Res({})", r),
        PictureTypeCode::DisposablePFrame => "D".into(),
    }
}

pub fn hdr_str(h: &Picture) -> String {
    // backchannel_message / reference_picture_resampling can only be None in a parsed header
    let tail = if h.backchannel_message.is_some() || h.reference_picture_resampling.is_some() {
        " UNEXPECTED-BCM-OR-RPRP"
    } else {
        ""
    };
    format!(
        "ver={} tr={} fmt={} opts={} plus={} opp={} type={} mvr={} sss={} layer={} rpsm={} trp={} q={} mux={} pbr={} pbq={} extra={}{}",
        opt(&h.version, |v| v.to_string()),
        h.temporal_reference,
        opt(&h.format, fmt_str),
        h.options.bits(),
        h.has_plusptype as u8,
        h.has_opptype as u8,
        type_str(&h.picture_type),
        opt(&h.motion_vector_range, |m| match m {
            MotionVectorRange::Extended => "E".to_string(),
            MotionVectorRange::Unlimited => "U".to_string(),
        }),
        opt(&h.slice_submode, |s| s.bits().to_string()),
        opt(&h.scalability_layer, |l| format!("{}/{}", l.enhancement, opt(&l.reference, |r| r.to_string()))),
        opt(&h.reference_picture_selection_mode, |m| m.bits().to_string()),
        opt(&h.prediction_reference, |t| t.to_string()),
        h.quantizer,
        opt(&h.multiplex_bitstream, |m| m.to_string()),
        opt(&h.pb_reference, |t| t.to_string()),
        opt(&h.pb_quantizer, |q| format!("{:?}", q)
            .replace("Five", "5")
            .replace("Six", "6")
            .replace("Seven", "7")
            .replace("Eight", "8")),
        hex(&h.extra),
        tail
    )
}

pub fn err_name(e: &Error) -> String {
    match e {
        Error::InternalDecoderError => "Internal".into(),
        Error::MiddleOfBitstream => "MiddleOfBitstream".into(),
        Error::InvalidMacroblockHeader => "InvalidMacroblockHeader".into(),
        Error::InvalidMacroblockCodedBits => "InvalidMacroblockCodedBits".into(),
        Error::InvalidIntraDc => "InvalidIntraDc".into(),
        Error::InvalidShortCoefficient => "InvalidShortCoefficient".into(),
        Error::InvalidLongCoefficient => "InvalidLongCoefficient".into(),
        Error::InvalidMvd => "InvalidMvd".into(),
        Error::InvalidPType => "InvalidPType".into(),
        Error::InvalidPlusPType => "InvalidPlusPType".into(),
        Error::InvalidGobHeader => "InvalidGobHeader".into(),
        Error::InvalidBitstream => "InvalidBitstream".into(),
        Error::PictureFormatMissing => "PictureFormatMissing".into(),
        Error::PictureFormatInvalid => "PictureFormatInvalid".into(),
        Error::UncodedIFrameBlocks => "UncodedIFrameBlocks".into(),
        Error::UnhandledIoError(_) => {
            if e.is_eof_error() {
                "Eof".into()
            } else {
                "Io".into()
            }
        }
        Error::UnimplementedDecoding => "Unimplemented".into(),
    }
}

fn plane_str(full: bool, d: &[u8]) -> String {
    if full {
        hex(d)
    } else {
        fnv(d)
    }
}

pub fn pic_str(full: bool, d: &DecodedPicture) -> String {
    let (w, h) = d.format().into_width_and_height().unwrap_or((0, 0));
    let (y, cb, cr) = d.as_yuv();
    format!(
        "[{} {}x{}/{} {} {} {}]",
        hdr_str(d.as_header()),
        w,
        h,
        d.chroma_samples_per_row(),
        plane_str(full, y),
        plane_str(full, cb),
        plane_str(full, cr)
    )
}

fn state_str(full: bool, st: &H263State) -> String {
    format!(
        "L{} R{}",
        match st.get_last_picture() {
            None => "-".to_string(),
            Some(d) => pic_str(full, d),
        },
        match st.get_reference_picture() {
            None => "-".to_string(),
            Some(d) => format!("[{} {}]", d.as_header().temporal_reference, plane_str(full, d.as_luma())),
        }
    )
}

pub fn next_str<R: Read>(r: &mut H263Reader<R>) -> String {
    let s = r
        .with_lookahead(|r| {
            let mut s = String::new();
            for _ in 0..64 {
                match r.read_bits::<u8>(1) {
                    Ok(b) => s.push(if b == 1 { '1' } else { '0' }),
                    Err(_) => break,
                }
            }
            Ok(s)
        })
        .unwrap_or_default();
    if s.is_empty() {
        "-".into()
    } else {
        s
    }
}

pub fn opts_of(o: u8) -> DecoderOption {
    let mut d = DecoderOption::empty();
    if o & 1 != 0 {
        d |= DecoderOption::SORENSON_SPARK_BITSTREAM;
    }
    if o & 2 != 0 {
        d |= DecoderOption::USE_SCALABILITY_MODE;
    }
    d
}

/// Memory guard (the property's own exclusion): the area declared by the header of the picture
/// about to be decoded, obtained through the public parser API without consuming anything.
fn declared_area<R: Read>(st: &H263State, o: u8, r: &mut H263Reader<R>) -> u64 {
    let prev = st.get_last_picture().map(|p| p.as_header());
    let hdr = r.with_lookahead(|r| h263_rs::parser::decode_picture(r, opts_of(o), prev));
    match hdr {
        Ok(Some(h)) => {
            let fmt = h.format.or_else(|| st.get_last_picture().map(|p| p.format()));
            match fmt.and_then(|f| f.into_width_and_height()) {
                Some((w, hh)) => w as u64 * hh as u64,
                None => 0,
            }
        }
        _ => 0,
    }
}

/// One decoder instance with its session reader, stepped one operation at a time.
pub struct Runner {
    full: bool,
    o: u8,
    st: H263State,
    src: Grow,
    session: H263Reader<Grow>,
    dead: bool,
}

impl Runner {
    pub fn new(full: bool, o: u8) -> Self {
        let src = Grow::new(VecDeque::new(), 0);
        Runner { full, o, st: H263State::new(opts_of(o)), src: src.clone(), session: H263Reader::from_source(src), dead: false }
    }

    /// decode -> deblock every plane with the strength tabulated for the quantizer -> RGBA
    fn pipeline(&self) -> String {
        match self.st.get_last_picture() {
            None => "pipe:none".to_string(),
            Some(d) => {
                let (w, h) = d.format().into_width_and_height().unwrap_or((0, 0));
                let q = d.as_header().quantizer as usize;
                let s = h263_rs_deblock::deblock::QUANT_TO_STRENGTH[q.min(31)];
                let (y, cb, cr) = d.as_yuv();
                let cw = d.chroma_samples_per_row();
                let y2 = h263_rs_deblock::deblock::deblock(y, w as usize, s);
                let cb2 = h263_rs_deblock::deblock::deblock(cb, cw, s);
                let cr2 = h263_rs_deblock::deblock::deblock(cr, cw, s);
                let rgba = h263_rs_yuv::bt601::yuv420_to_rgba(&y2, &cb2, &cr2, w as usize);
                format!("pipe:ok:{}:{}:{}", rgba.len(), (w as usize) * (h as usize) * 4, plane_str(self.full, &rgba))
            }
        }
    }

    pub fn step(&mut self, op: &str) -> String {
        if self.dead {
            return String::new();
        }
        let arg = if op.len() > 2 { &op[2..] } else { "" };
        let c = op.as_bytes()[0];
        let full = self.full;
        let o = self.o;
        let tok: Result<String, ()> = catch(|| match c {
            // 'G' is 'D' without the area exclusion: for complete pictures the generator made large on purpose
            b'D' | b'G' => {
                let data = unhex(arg);
                let mut r = H263Reader::from_source(&data[..]);
                if c == b'D' && declared_area(&self.st, o, &mut r) > 16777216 {
                    return "excluded".to_string();
                }
                match self.st.decode_next_picture(&mut r) {
                    Ok(()) => format!("ok {} next={}", state_str(full, &self.st), next_str(&mut r)),
                    Err(e) => format!("err:{} {} next={}", err_name(&e), state_str(full, &self.st), next_str(&mut r)),
                }
            }
            b'S' | b'R' => {
                if c == b'S' {
                    self.src.0.borrow_mut().extend(unhex(arg));
                }
                if declared_area(&self.st, o, &mut self.session) > 16777216 {
                    return "excluded".to_string();
                }
                match self.st.decode_next_picture(&mut self.session) {
                    Ok(()) => format!("ok {} next={}", state_str(full, &self.st), next_str(&mut self.session)),
                    Err(e) => {
                        format!("err:{} {} next={}", err_name(&e), state_str(full, &self.st), next_str(&mut self.session))
                    }
                }
            }
            b'C' => {
                self.st.cleanup_buffers();
                format!("cleanup {}", state_str(full, &self.st))
            }
            b'B' => match self.session.read_bits::<u32>(arg.parse().unwrap()) {
                Ok(v) => format!("bits={}", v),
                Err(e) => format!("bits:err:{}", err_name(&e)),
            },
            b'M' => {
                // from now on the session source hands out short reads
                self.src.1.set(arg.parse::<u64>().unwrap());
                "mode".to_string()
            }
            b'X' => self.pipeline(),
            _ => panic!("bad op"),
        });
        match tok {
            Ok(t) => t,
            Err(()) => {
                self.dead = true;
                "panic".to_string()
            }
        }
    }
}

/// One history: returns the output line (without index).
pub fn run_history(full: bool, o: u8, ops: &[&str]) -> String {
    let mut r = Runner::new(full, o);
    let mut out = String::new();
    for op in ops {
        if r.dead {
            break;
        }
        out.push_str(" | ");
        out.push_str(&r.step(op));
    }
    out
}

/// threads <nthreads> <seed> <cases>: every thread owns the decoders of the histories assigned to it
/// (round robin) and steps them in a seeded interleaving with yields; the output of each history must be
/// what the same history gives when run alone (compared by the caller with `decode` output).
pub fn threads(mode: &str, nthreads: usize, seed: u64, path: &str) {
    let full = mode == "full";
    let lines = read_lines(path);
    let results: Vec<Vec<(String, String)>> = std::thread::scope(|sc| {
        let mut hs = vec![];
        for t in 0..nthreads {
            let lines = &lines;
            hs.push(sc.spawn(move || {
                let mine: Vec<&String> = lines.iter().enumerate().filter(|(i, _)| i % nthreads == t).map(|(_, l)| l).collect();
                let parsed: Vec<Vec<&str>> = mine.iter().map(|l| l.split_whitespace().collect()).collect();
                let mut runners: Vec<Runner> = parsed.iter().map(|f| Runner::new(full, f[1].parse().unwrap())).collect();
                let mut pos: Vec<usize> = vec![2; parsed.len()];
                let mut outs: Vec<String> = vec![String::new(); parsed.len()];
                let mut s = seed.wrapping_mul(0x9E3779B97F4A7C15).wrapping_add(t as u64 + 1);
                loop {
                    let live: Vec<usize> = (0..parsed.len()).filter(|&k| pos[k] < parsed[k].len() && !runners[k].dead).collect();
                    if live.is_empty() {
                        break;
                    }
                    s ^= s << 13;
                    s ^= s >> 7;
                    s ^= s << 17;
                    let k = live[(s % live.len() as u64) as usize];
                    let tok = runners[k].step(parsed[k][pos[k]]);
                    outs[k].push_str(" | ");
                    outs[k].push_str(&tok);
                    pos[k] += 1;
                    if s & 3 == 0 {
                        std::thread::yield_now();
                    }
                }
                parsed.iter().zip(outs).map(|(f, o)| (f[0].to_string(), o)).collect::<Vec<_>>()
            }));
        }
        hs.into_iter().map(|h| h.join().unwrap()).collect()
    });
    let mut all: Vec<(String, String)> = results.into_iter().flatten().collect();
    all.sort_by_key(|(i, _)| i.parse::<u64>().unwrap_or(0));
    let mut o = out();
    for (i, l) in all {
        writeln!(o, "{}{}", i, l).unwrap();
    }
}

/// cases: `<idx> <opts> <op>...`; a per-case watchdog thread would not be able to stop a
/// hung decode, so hangs are caught by the caller's process timeout (the index of the
/// case being run is flushed to stderr first).
pub fn decode(mode: &str, path: &str) {
    let full = mode == "full";
    let mut o = out();
    for line in read_lines(path) {
        let f: Vec<&str> = line.split_whitespace().collect();
        let opts: u8 = f[1].parse().unwrap();
        writeln!(o, "{}{}", f[0], run_history(full, opts, &f[2..])).unwrap();
        o.flush().unwrap();
    }
}

/// header cases: `<idx> <opts> <prevhex|-> <prev_format_none 0|1> <hex>`: the public parser entry point
/// decode_picture with an optional previous header (parsed from prevhex with no predecessor; a comma-separated chain
/// parses each header with the one before it as predecessor).
pub fn header(path: &str) {
    let mut o = out();
    for line in read_lines(path) {
        let f: Vec<&str> = line.split_whitespace().collect();
        let opts: u8 = f[1].parse().unwrap();
        let tok = catch(|| {
            // prevhex may be a chain "hexA,hexB,...": each header is parsed with the one before it as its predecessor
            let mut prev = None;
            if f[2] != "-" {
                for (k, ph) in f[2].split(',').enumerate() {
                    let pd = unhex(ph);
                    let mut pr = H263Reader::from_source(&pd[..]);
                    let mut p = h263_rs::parser::decode_picture(&mut pr, opts_of(opts), prev.as_ref())
                        .expect("prev header must parse")
                        .expect("prev header must be a picture");
                    if k == 0 && f[3] == "1" {
                        p.format = None;
                    }
                    prev = Some(p);
                }
            }
            let data = unhex(f[4]);
            let mut r = H263Reader::from_source(&data[..]);
            match h263_rs::parser::decode_picture(&mut r, opts_of(opts), prev.as_ref()) {
                Ok(Some(h)) => format!("ok {} next={}", hdr_str(&h), next_str(&mut r)),
                Ok(None) => format!("gob next={}", next_str(&mut r)),
                Err(e) => format!("err:{} next={}", err_name(&e), next_str(&mut r)),
            }
        })
        .unwrap_or("panic".to_string());
        writeln!(o, "{} {}", f[0], tok).unwrap();
    }
}
