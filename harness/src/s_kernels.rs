//! Exhaustive sweeps of the small integer kernels of the h263 crate through the verification hooks,
//! against tables computed by the extracted Coq spec/model (C11, C12).
use crate::util::*;
use h263_rs::verif_hooks::*;
use h263_rs::PictureOption;
use std::collections::HashMap;

fn hp_val(h: HalfPel) -> i32 {
    let s = format!("{:?}", h);
    s.trim_start_matches("HalfPel(").trim_end_matches(')').parse().unwrap()
}

fn mv(x: i16, y: i16) -> MotionVector {
    MotionVector::from((HalfPel::from_unit(x), HalfPel::from_unit(y)))
}

fn mv_val(m: MotionVector) -> (i32, i32) {
    let (x, y): (HalfPel, HalfPel) = m.into();
    (hp_val(x), hp_val(y))
}

fn header(plus: bool, mvr: Option<MotionVectorRange>) -> Picture {
    Picture {
        version: None,
        temporal_reference: 0,
        format: None,
        options: PictureOption::empty(),
        has_plusptype: plus,
        has_opptype: plus,
        picture_type: PictureTypeCode::PFrame,
        motion_vector_range: mvr,
        slice_submode: None,
        scalability_layer: None,
        reference_picture_selection_mode: None,
        prediction_reference: None,
        backchannel_message: None,
        reference_picture_resampling: None,
        quantizer: 1,
        multiplex_bitstream: None,
        pb_reference: None,
        pb_quantizer: None,
        extra: vec![],
    }
}

fn picture(plus: bool, extended: bool, w: u16, h: u16) -> DecodedPicture {
    let fmt = SourceFormat::Extended(CustomPictureFormat {
        pixel_aspect_ratio: PixelAspectRatio::Square,
        picture_width_indication: w,
        picture_height_indication: h,
    });
    let mvr = if extended { Some(MotionVectorRange::Extended) } else { Some(MotionVectorRange::Unlimited) };
    DecodedPicture::new(header(plus, mvr), fmt).unwrap()
}

/// the single coefficient of a decoded block, with its class: (class, x, y, value) or None if empty
fn single_coeff(b: &DecodedDctBlock) -> Option<(&'static str, usize, usize, i32)> {
    match b {
        DecodedDctBlock::Zero => None,
        DecodedDctBlock::Dc(v) => Some(("dc", 0, 0, *v as i32)),
        DecodedDctBlock::Horiz(r) => {
            let nz: Vec<usize> = (0..8).filter(|&i| r[i] != 0.0).collect();
            if nz.len() == 1 { Some(("horiz", nz[0], 0, r[nz[0]] as i32)) } else { Some(("horiz-multi", 0, 0, 0)) }
        }
        DecodedDctBlock::Vert(c) => {
            let nz: Vec<usize> = (0..8).filter(|&i| c[i] != 0.0).collect();
            if nz.len() == 1 { Some(("vert", 0, nz[0], c[nz[0]] as i32)) } else { Some(("vert-multi", 0, 0, 0)) }
        }
        DecodedDctBlock::Full(m) => {
            let mut nz = vec![];
            for y in 0..8 {
                for x in 0..8 {
                    if m[y][x] != 0.0 {
                        nz.push((x, y));
                    }
                }
            }
            if nz.len() == 1 { Some(("full", nz[0].0, nz[0].1, m[nz[0].1][nz[0].0] as i32)) } else { Some(("full-multi", 0, 0, 0)) }
        }
    }
}

pub fn sweep(tables: &str) {
    let mut dq: HashMap<(i32, i32), i32> = HashMap::new();
    let mut zz: Vec<(usize, usize)> = vec![(0, 0); 64];
    let mut dc: HashMap<i32, Option<i32>> = HashMap::new();
    let mut avg: HashMap<i32, i32> = HashMap::new();
    let mut hp: HashMap<(i32, i32, i32, i32), i32> = HashMap::new();
    let mut lerp: HashMap<i32, (i32, bool)> = HashMap::new();
    for line in read_lines(tables) {
        let f: Vec<&str> = line.split_whitespace().collect();
        let n = |k: usize| -> i32 { f[k].parse().unwrap() };
        match f[0] {
            "dq" => { dq.insert((n(1), n(2)), n(3)); }
            "zz" => { zz[n(1) as usize] = (n(2) as usize, n(3) as usize); }
            "dc" => { dc.insert(n(1), if f[2] == "none" { None } else { Some(n(2)) }); }
            "avg" => { avg.insert(n(1), n(2)); }
            "hp" => { hp.insert((n(1), n(2), n(3), n(4)), n(5)); }
            "lerp" => { lerp.insert(n(1), (n(2), f[3] == "1")); }
            _ => {}
        }
    }
    let mut n_eval: u64 = 0;
    let mut bad: Vec<String> = vec![];
    let mut note = |bad: &mut Vec<String>, s: String| { if bad.len() < 60 { bad.push(s); } };
    // (a) dequantisation at every zig-zag position, short and escape form, inter and intra blocks
    for q in 1..=31i32 {
        for level in -1023..=1023i32 {
            if level == 0 { continue; }
            let want = dq[&(q, level)];
            for run in 0..64usize {
                if !(run < 3 || run == 63 || (level + run as i32) % 7 == 0 || level.abs() <= 2 || level.abs() >= 1022) { continue; }
                for intra in [false, true] {
                    if intra && run == 63 { continue; }
                    let idx = run + if intra { 1 } else { 0 };
                    let blk = Block {
                        intradc: if intra { IntraDc::from_u8(16) } else { None },
                        tcoef: vec![TCoefficient { is_short: level.abs() < 13, run: run as u8, level: level as i16 }],
                    };
                    let mut levels = vec![DecodedDctBlock::Zero; 1];
                    let r = catch(|| inverse_rle(&blk, &mut levels, (0, 0), 1, q as u8));
                    n_eval += 1;
                    let (x, y) = zz[idx];
                    let ok = match (&r, intra) {
                        (Err(()), _) => false,
                        (Ok(()), false) => {
                            let cls = if x == 0 && y == 0 { "dc" } else if y == 0 { "horiz" } else if x == 0 { "vert" } else { "full" };
                            single_coeff(&levels[0]) == Some((cls, x, y, want))
                        }
                        (Ok(()), true) => {
                            // DC = 128 plus one AC coefficient
                            match &levels[0] {
                                DecodedDctBlock::Horiz(r) => y == 0 && r[0] == 128.0 && r[x] as i32 == want && (1..8).filter(|&i| i != x).all(|i| r[i] == 0.0),
                                DecodedDctBlock::Vert(c) => x == 0 && c[0] == 128.0 && c[y] as i32 == want && (1..8).filter(|&i| i != y).all(|i| c[i] == 0.0),
                                DecodedDctBlock::Full(m) => x > 0 && y > 0 && m[0][0] == 128.0 && m[y][x] as i32 == want
                                    && (0..8).all(|yy| (0..8).all(|xx| (xx, yy) == (0, 0) || (xx, yy) == (x, y) || m[yy][xx] == 0.0)),
                                _ => false,
                            }
                        }
                    };
                    if !ok {
                        note(&mut bad, format!("mismatch kernel=dequant q={} level={} zigzag_index={} intra={} want=({},{},{}) got={:?}",
                            q, level, idx, intra, x, y, want, if r.is_ok() { format!("{:?}", levels[0]) } else { "panic".into() }));
                    }
                }
            }
        }
    }
    // (b) INTRADC codes
    for c in 0..=255i32 {
        n_eval += 1;
        let got = IntraDc::from_u8(c as u8).map(|d| d.into_level() as i32);
        if got != dc[&c] {
            note(&mut bad, format!("mismatch kernel=intradc code={} want={:?} got={:?}", c, dc[&c], got));
        }
    }
    // (c) chroma vector from the sum of four luma vectors, half-sample split
    for s in -32768..=32767i32 {
        n_eval += 1;
        let got = hp_val(HalfPel::from_unit(s as i16).average_sum_of_mvs());
        if Some(&got) != avg.get(&s) {
            note(&mut bad, format!("mismatch kernel=average_sum_of_mvs sum={} want={:?} got={}", s, avg.get(&s), got));
        }
        let (d, i) = HalfPel::from_unit(s as i16).into_lerp_parameters();
        if Some(&(d as i32, i)) != lerp.get(&s) {
            note(&mut bad, format!("mismatch kernel=into_lerp_parameters h={} want={:?} got=({},{})", s, lerp.get(&s), d, i));
        }
    }
    // (d) vector reconstruction for every predictor/differential pair, every mode in the table
    let modes: Vec<i32> = { let mut m: Vec<i32> = hp.keys().map(|k| k.0).collect(); m.sort(); m.dedup(); m };
    for &mode in &modes {
        // mode: 0 no UMV; 1 UMV without PLUSPTYPE; 2.. UMV + PLUSPTYPE + Extended range at sizes by index
        let sizes: [(u16, u16); 6] = [(176, 144), (352, 288), (356, 292), (704, 576), (708, 580), (1412, 1152)];
        let (opts, pic) = match mode {
            0 => (PictureOption::empty(), picture(false, false, 176, 144)),
            1 => (PictureOption::UNRESTRICTED_MOTION_VECTORS, picture(false, false, 176, 144)),
            m if m >= 2 && m < 8 => (PictureOption::UNRESTRICTED_MOTION_VECTORS, picture(true, true, sizes[(m - 2) as usize].0, sizes[(m - 2) as usize].1)),
            _ => (PictureOption::UNRESTRICTED_MOTION_VECTORS, picture(true, false, 176, 144)),
        };
        for (&(m, p, d, isx), &want) in hp.iter() {
            if m != mode { continue; }
            n_eval += 1;
            let (pv, dv) = if isx == 1 { (mv(p as i16, 0), mv(d as i16, 0)) } else { (mv(0, p as i16), mv(0, d as i16)) };
            let got = catch(|| mv_val(mv_decode(&pic, opts, pv, dv)));
            let g = got.map(|(x, y)| if isx == 1 { x } else { y });
            if g != Ok(want) {
                note(&mut bad, format!("mismatch kernel=mv_decode mode={} predictor={} differential={} is_x={} want={} got={:?}", m, p, d, isx, want, g));
            }
        }
    }
    bad.sort();
    println!("evaluated {}", n_eval);
    println!("mismatches {}", bad.len());
    for b in bad.iter().take(40) {
        println!("{}", b);
    }
}

/// candidate cases: `<idx> <mbw> <index> <cur: 8 ints> <n> <n*8 ints>` -> predictor x,y
pub fn candidates(path: &str) {
    use std::io::Write;
    let mut o = out();
    for line in read_lines(path) {
        let f: Vec<i32> = line.split_whitespace().skip(1).map(|x| x.parse().unwrap()).collect();
        let idx = line.split_whitespace().next().unwrap();
        let mbw = f[0] as usize;
        let index = f[1] as usize;
        let cur = [mv(f[2] as i16, f[3] as i16), mv(f[4] as i16, f[5] as i16), mv(f[6] as i16, f[7] as i16), mv(f[8] as i16, f[9] as i16)];
        let n = f[10] as usize;
        let mut pv = vec![];
        for k in 0..n {
            let b = 11 + 8 * k;
            pv.push([mv(f[b] as i16, f[b + 1] as i16), mv(f[b + 2] as i16, f[b + 3] as i16), mv(f[b + 4] as i16, f[b + 5] as i16), mv(f[b + 6] as i16, f[b + 7] as i16)]);
        }
        match catch(|| mv_val(predict_candidate(&pv, &cur, mbw, index))) {
            Ok((x, y)) => writeln!(o, "{} {} {}", idx, x, y).unwrap(),
            Err(()) => writeln!(o, "{} panic", idx).unwrap(),
        }
    }
}

/// idct cases: `<idx> <64 coefficients row-major [y][x]>` -> the 64 values idct_channel adds to the prediction,
/// recovered from three runs over predictions 0, 128 and 255 (values -255..255 are observed exactly; -256
/// shows as -255).
pub fn idct(path: &str) {
    use std::io::Write;
    let mut o = out();
    for line in read_lines(path) {
        let f: Vec<i32> = line.split_whitespace().skip(1).map(|x| x.parse().unwrap()).collect();
        let idx = line.split_whitespace().next().unwrap();
        let mut m = [[0.0f32; 8]; 8];
        for y in 0..8 {
            for x in 0..8 {
                m[y][x] = f[8 * y + x] as f32;
            }
        }
        // the classification inverse_rle performs
        let horiz = (1..8).all(|y| (0..8).all(|x| m[y][x] == 0.0));
        let vert = (0..8).all(|y| (1..8).all(|x| m[y][x] == 0.0));
        let blk = if horiz && vert {
            if m[0][0] == 0.0 { DecodedDctBlock::Zero } else { DecodedDctBlock::Dc(m[0][0]) }
        } else if horiz {
            DecodedDctBlock::Horiz(m[0])
        } else if vert {
            DecodedDctBlock::Vert([m[0][0], m[1][0], m[2][0], m[3][0], m[4][0], m[5][0], m[6][0], m[7][0]])
        } else {
            DecodedDctBlock::Full(m)
        };
        let r = catch(|| {
            let run = |pred: u8| -> Vec<u8> {
                let mut out = vec![pred; 64];
                idct_channel(&[blk], &mut out, 1, 8);
                out
            };
            let (p0, p128, p255) = (run(0), run(128), run(255));
            (0..64)
                .map(|k| {
                    let a = p128[k] as i32 - 128;
                    if a > -128 && a < 127 {
                        a
                    } else if a >= 127 {
                        p0[k] as i32
                    } else {
                        p255[k] as i32 - 255
                    }
                })
                .collect::<Vec<i32>>()
        });
        // the same block at the edge of a smaller plane: the visible samples must be what they are in the full block
        let crop = catch(|| {
            let mut full = vec![128u8; 64];
            idct_channel(&[blk], &mut full, 1, 8);
            for &(w, h) in &[(8usize, 5usize), (5, 8), (3, 6), (8, 1), (1, 8), (7, 7)] {
                let mut out = vec![128u8; w * h];
                idct_channel(&[blk], &mut out, 1, w);
                for y in 0..h {
                    for x in 0..w {
                        if out[x + y * w] != full[x + y * 8] {
                            return format!(" crop:{}:{}:{}:{}:{}:{}", w, h, x, y, out[x + y * w], full[x + y * 8]);
                        }
                    }
                }
            }
            String::new()
        })
        .unwrap_or_else(|_| " crop:panic".to_string());
        match r {
            Ok(v) => writeln!(o, "{} {}{}", idx, v.iter().map(|x| x.to_string()).collect::<Vec<_>>().join(" "), crop).unwrap(),
            Err(()) => writeln!(o, "{} panic{}", idx, crop).unwrap(),
        }
    }
}
