use std::io::{BufRead, BufReader, Write};

pub fn read_lines(path: &str) -> Vec<String> {
    let f = std::fs::File::open(path).expect("case file");
    BufReader::new(f).lines().map(|l| l.unwrap()).filter(|l| !l.trim().is_empty()).collect()
}

pub fn unhex(s: &str) -> Vec<u8> {
    if s == "-" {
        return vec![];
    }
    let b = s.as_bytes();
    let v = |c: u8| -> u8 {
        match c {
            b'0'..=b'9' => c - b'0',
            b'a'..=b'f' => c - b'a' + 10,
            b'A'..=b'F' => c - b'A' + 10,
            _ => panic!("bad hex"),
        }
    };
    (0..b.len() / 2).map(|i| v(b[2 * i]) * 16 + v(b[2 * i + 1])).collect()
}

pub fn hex(d: &[u8]) -> String {
    if d.is_empty() {
        return "-".to_string();
    }
    let mut s = String::with_capacity(d.len() * 2);
    for b in d {
        s.push_str(&format!("{:02x}", b));
    }
    s
}

pub fn out() -> std::io::BufWriter<std::io::Stdout> {
    std::io::BufWriter::with_capacity(1 << 20, std::io::stdout())
}

pub fn catch<T>(f: impl FnOnce() -> T) -> Result<T, ()> {
    std::panic::catch_unwind(std::panic::AssertUnwindSafe(f)).map_err(|_| ())
}

#[allow(dead_code)]
pub fn flush(w: &mut impl Write) {
    w.flush().unwrap();
}
