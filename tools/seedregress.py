#!/usr/bin/env python3
"""Re-run every seeded change against its own property's quick check (after generator or repository changes).
Writes seeded/REGRESSION.json: {seed: {"exit":..,"violations":n}}.  Patches /repo temporarily: run nothing else meanwhile."""
import json, os, subprocess, sys
root = "/verif/seeded"
out = {}
only = sys.argv[1:]
for d in sorted(os.listdir(root)):
    p = os.path.join(root, d)
    if not os.path.isfile(os.path.join(p, "patch.diff")) or (only and d not in only):
        continue
    pid = d.split("-")[0]
    subprocess.run([sys.executable, "/verif/tools/seedtest.py", p, pid], stdout=subprocess.DEVNULL, stderr=subprocess.DEVNULL)
    try:
        r = json.load(open(os.path.join(p, "result.json")))[pid]
        out[d] = {"exit": r["exit"], "violations": len(r["violations"]), "detail": (r.get("detail") or [""])[0][:160]}
    except Exception as e:
        out[d] = {"error": str(e)}
    print(d, out[d], flush=True)
    json.dump(out, open(os.path.join(root, "REGRESSION.json"), "w"), indent=1)
missed = [k for k, v in out.items() if v.get("exit") != 1]
print("MISSED:", missed)
