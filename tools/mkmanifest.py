#!/usr/bin/env python3
"""Writes MANIFEST.json from the per-property claims below (kept in one place so the file stays valid)."""
import json, os
ROOT = os.path.dirname(os.path.dirname(os.path.abspath(__file__)))
props = [json.loads(l) for l in open(os.path.join(ROOT, "properties.jsonl"))]
NOTE_COMMON = ("Trusted: Coq 8.16.1 kernel (vm_compute, no native_compute); tools/rs2v.py; extraction with ExtrOcamlBasic only; "
               "the OCaml driver and Rust harness glue; faithfulness of the hand-written model parts beyond what the correspondence suites execute; "
               "my transcription of the H.263 / Sorenson / BT.601 texts. Axioms per theorem are in the evidence file (Print Assumptions).")
CLAIMS = {
 "C16": dict(
  technique="Coq proof (totality/shape of the deblock model for all sizes and strengths; table = J.2) + regenerated-table bridge + exhaustive model/implementation differential",
  text="Theorems (axiom-free): the model of deblock() returns Ok with an output of the input's length for every width>=1, every height>=0 (0 and 1 included) and every strength; the strength table equals the transcribed Table J.2 and lies in 1..12 for quantizers 1..31. The table is regenerated from the source each run and bridged by reflexivity; the pass structure is hand-modelled and tied to the crate by running both (checked build: overflow checks + debug assertions) on every width 1..40 x height 0..40 x strength 1..12, comparing result class and length.",
  design="5/C16"),
 "C09": dict(
  technique="Coq proof (scalar and vector-lane kernels = Annex J for all bytes and strengths by lia; length preservation) + exhaustive kernel sweep against tables from the extracted spec + image differential over a dense size grid",
  text="Theorems (axiom-free): for all byte patterns (A,B,C,D) and every strength the code's scalar kernel and each lane of the repaired vector kernel equal the Annex J formula with truncating divisions, results are bytes (so the unclipped A/D casts are exact); the pre-repair flooring lane kernel is refuted by a witness; output length = input length for every size. The pass structure (4-row groups, 8-column vector chunks + scalar remainder, 8-row vector groups + scalar remainder rows) is hand-modelled; it is tied to the crate byte-for-byte on all widths 1..40 x heights 0..40 with adversarial content, and both real kernels are swept against the spec on the (A,D)-lattice x all (B,C) x 12 strengths (quick) or all 2^32 x 12 patterns (thorough). The pointwise Annex J image (executable spec) is the oracle when model and crate disagree.",
  design="5/C09"),
}
checks = []
for pid in sorted(CLAIMS):
    c = CLAIMS[pid]
    checks.append({"property_id": pid, "quick_cmd": "./check %s --tier quick" % pid,
                   "thorough_cmd": "./check %s --tier thorough" % pid,
                   "evidence_file": "/verif/evidence/%s.json" % pid,
                   "replay_cmd_template": "./check %s --replay {path}" % pid, "engine": "coq-h263v",
                   "level_claimed": {"category": "proof", "text": c["text"], "design_ref": c["design"]},
                   "level_note": c.get("note", NOTE_COMMON), "technique": c["technique"]})
na = [{"property_id": p["id"],
       "reason": "not yet claimed: the Coq model, theorems and correspondence suite for this property are still being built (DESIGN.md section 10); machine-checked proof applies to it"}
      for p in props if p["id"] not in CLAIMS]
m = {"version": 1, "setup_cmd": "./setup.sh",
     "hooks": {"guard": "h263_rs_verif",
               "enable": "RUSTFLAGS=\"--cfg h263_rs_verif\" (set in /verif/harness/.cargo/config.toml)",
               "baseline_off_cmd": "cd /repo && cargo test --workspace --no-fail-fast --offline",
               "source_commits": ["5e9b240"], "add_only": True},
     "engines": [{"name": "coq-h263v", "path": "/verif/coq", "serves_properties": sorted(CLAIMS),
                  "kind_free_text": "Coq 8.16.1 development (spec / model / proofs / props); tables regenerated from /repo and bridged on every run; extracted OCaml model versus Rust harness differential; spec-versus-implementation violation search"}],
     "checks": checks, "not_applicable": na,
     "notes": "Hook commit only adds cfg-guarded re-exports plus a check-cfg lint entry in two Cargo.toml files (deblock/Cargo.toml lacked a trailing newline, so its last line shows as rewritten). Genuine defects repaired in /repo are listed under 'fixed' in known_findings.json."}
json.dump(m, open(os.path.join(ROOT, "MANIFEST.json"), "w"), indent=1)
print("claimed:", sorted(CLAIMS))
