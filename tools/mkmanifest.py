#!/usr/bin/env python3
"""Writes MANIFEST.json from the per-property claims below (kept in one place so the file stays valid)."""
import json, os
ROOT = os.path.dirname(os.path.dirname(os.path.abspath(__file__)))
props = [json.loads(l) for l in open(os.path.join(ROOT, "properties.jsonl"))]
NOTE_COMMON = ("Trusted: Coq 8.16.1 kernel (vm_compute, no native_compute); tools/rs2v.py; extraction with ExtrOcamlBasic only; "
               "the OCaml driver and Rust harness glue; faithfulness of the hand-written model parts beyond what the correspondence suites execute; "
               "my transcription of the H.263 / Sorenson / BT.601 texts. Axioms per theorem are in the evidence file (Print Assumptions).")
AX = (" Theorems that mention the reconstruction (binary32 IDCT model built on Flocq) depend on the four standard-library axioms behind Coq's Reals "
      "(ClassicalDedekindReals.sig_forall_dec, sig_not_dec, FunctionalExtensionality.functional_extensionality_dep, Classical_Prop.classic); all others are axiom-free.")
CLAIMS = {
 "C01": dict(
  technique="Coq proof (arithmetic safety of the integer kernels; loop bound; plane-shape invariant) + full executable Coq model of the decoder run against the crate on seeded corrupt/valid/random histories; a crash of the crate is itself the failing input",
  text="The whole decoder (bit reader, header, macroblock and block parsers, RLE/dequantisation, motion-vector prediction, motion compensation, binary32 IDCT, state) is modelled in Gallina with explicit Panic/OutOfFuel results and tied to the crate by running both on 3 000 (quick) / 60 000 (thorough) histories per run (valid I/P/D pictures, nine kinds of corruption, random bytes behind a start code, explicit size fields incl. zero, size-changing predicted pictures, UMV vector accumulation; all four option sets; prior histories) comparing result class, header, plane hashes and reader position after every call, under a watchdog. Theorems proved for all inputs: quantizer stays in 1..31, dequantised coefficients in -2048..2047, vector sums saturate in i16 (C01_kernels_safe); the macroblock loop never exceeds the picture's macroblock count (C15); every reconstructed picture has planes of the signalled size (C13). The full totality theorem (no Panic / OutOfFuel for every byte string and state) is NOT yet proved: that part of the claim rests on the differential. Inputs whose declared area exceeds 2^24 samples are excluded on both sides (the property's own exclusion)." ,
  design="5/C01"),
 "C02": dict(
  technique="Coq proof (dequantisation formula, zig-zag = anti-diagonal walk, INTRADC levels) + bit-exact model/implementation differential on generated intra pictures + independent reference reconstruction as search oracle + transcribed VLC tables cross-checked against the source trees",
  text="Theorems: dequant = sign(L)(Q(2|L|+1) - [Q even]) saturated, for every Q and L; the source's de-zig-zag table equals the anti-diagonal walk; INTRADC codes (0,128 rejected; 8c; 255 -> 1024). The composition over whole pictures (parser round trip, placement, crop, IDCT) is not yet a theorem: it is tied by decoding 600 (20 000 thorough) generated intra pictures (sizes 1..80, Sorenson v0/v1/standard, q 1..31, every escape form, stuffing, PEI) in model and crate byte for byte, and by comparing the crate with an independent double-precision reference reconstruction (+-1 only within the float error of a rounding boundary) on a quarter of them and on every mismatch. My transcription of Tables 7/8/13/14/16 is compared with the source trees in both directions on every run.",
  design="5/C02"),
 "C03": dict(
  technique="Coq proof (vector wrap, chroma rounding table for every sum, median, no-reference rejection) + bit-exact differential on I+P/D histories + independent reference reconstruction as search oracle",
  text="Theorems: predictor + differential reduced modulo 64 half samples into -32..31 for every pair; average_sum_of_mvs = sum/8 with the sixteenth-position table for every integer sum; median_of is a median; motion compensation without a reference succeeds only if no macroblock is predicted. Whole predicted pictures (median candidates with border rules, 1- and 4-vector macroblocks, bilinear half-sample prediction with edge clamp, not-coded and truncated pictures) are tied by decoding 500 (20 000) I+P/D histories in model and crate byte for byte and comparing the crate with an independent reference reconstruction on a fifth of them and on every mismatch.",
  design="5/C03"),
 "C04": dict(
  technique="Coq proof: refinement of the map-keyed decoder state to a two-register abstract machine for every history (induction over operations, key invariant) + exhaustive short histories against the abstract machine",
  text="Theorems: one successful decode call makes the new picture the most recent one, reconstructs it from the *reference* register, and makes it the reference unless it is disposable, in which case the reference is untouched -- for arbitrary temporal references (key invariant: reference keys stay below the disposable key flag; header TRs are proved < 1024); cleanup_buffers changes neither register; by induction every history from a new decoder abstracts to the two-register machine (C04_history_refines). Tie: all histories of length <= 3 (<= 4 thorough) over {I,P,D} x TR {0,1,255} + garbage + cleanup and 1 500 (20 000) random longer ones, with position-coded flat pictures so that the picture used for prediction shows in the pixels, compared call by call with the abstract machine and with the model.",
  design="5/C04"),
 "C05": dict(
  technique="Coq statements on the model (errors carry no state; direct) + self-consistency differential of the crate (state and position after every kind of failure, twin decoder, two-piece delivery at every byte split) + model comparison",
  text="In the model a decode call is a function of (state, unread bits) and Err carries neither, which renders with_transaction's rollback and the fact that all state writes follow the last fallible step; the three theorems are therefore direct. That the code behaves like this function is checked by execution: for 120 (1 500) base histories and every kind of failing input (no start code, truncated header, truncated block data, reserved format, forbidden INTRADC, invalid CBPY, invalid MVD, zero escape level, bad marker, unimplemented RPRP, prediction without reference) the crate's pictures after the failure equal those before, the repeated call fails identically, and valid data afterwards decodes as on a twin decoder that never saw the failure; 24 (300) pictures are delivered in two pieces at every byte split through a growable source.",
  design="5/C05"),
 "C06": dict(
  technique="Coq proof (TR range of every parsed header) + hand-modelled header parser tied by exhaustive-per-field differential through the public parser entry point against the encoded field values",
  text="The header parser (Sorenson; PTYPE; PLUSPTYPE with OPPTYPE/MPPTYPE, CPM/PSBI, CPFMT/EPAR, CPCFC/ETR, UUI, SSS, ELNUM/RLNUM, RPSMF, TRPI/TRP, BCI, PQUANT, TRB/DBQUANT, PEI) is modelled by hand. Tie and oracle: ~9 000 (quick) headers produced by my encoder of H.263 5.1 from field values -- exhaustive per field family (all PTYPE flag/format/type combinations, all 2^10 OPPTYPE mode-bit patterns, every MPPTYPE type, all 512 widths with dense heights and all 512 heights, every PAR, CPCFC, TRB, RPSMF, Sorenson field) plus cross-field cases, marker-bit rejections and UFEP=0 inheritance -- parsed by the crate and compared with the canonical rendering of the encoded values and with the position after the header; the model must agree with the crate. The round-trip theorem decode(encode h) = h is not yet proved; proved: every parsed TR lies in 0..1023.",
  design="5/C06"),
 "C07": dict(
  technique="Coq proof by linear integer arithmetic over symbolic bytes (no enumeration) + regenerated constants bridged + sweep of the pixel kernel over a lattice / all 2^24 triples",
  text="Theorems (axiom-free): the kernel with the source's constants equals the 16.16 fixed-point BT.601 formula with round-to-nearest constants, +0.5 bias, shift and clamp for all integers; each constant is the nearest 16.16 value of its rational coefficient; every channel is strictly within 1 of the exact rational formula (clamped); alpha = 255; monotonicity of R, G, B in the components they depend on; i32 lanes cannot wrap. Constants, offsets, shift and channel structure are regenerated from bt601.rs and bridged each run; the real kernel is swept through yuv420_to_rgba on a 52^3 lattice + all cube faces + dense slabs (quick) or all 2^24 triples (thorough) against tables from the extracted spec.",
  design="5/C07"),
 "C08": dict(
  technique="Coq proof by induction on rows and 4-pixel groups with case analysis of the remainder path, for every width and height + layout differential on a dense size grid",
  text="Theorem (axiom-free): for every w, h >= 1 and planes of the documented sizes the model of yuv420_to_rgba (row loop, whole 4-pixel groups incl. zip truncation, remainder-columns path with its staging arrays) returns exactly the row-major image whose pixel (x, y) converts Y[x+yw] with Cb, Cr at [x/2 + (y/2) ceil(w/2)]; it has 4wh bytes with pixel (x,y) at offset 4(x+yw); the empty picture gives an empty output. Tie: every width 1..70 x height 1..12 (1..260 x 1..40 thorough) through the crate, compared with the layout assembled from the crate's own 1x1 conversions (independent of the colour formula).",
  design="5/C08"),
 "C09": dict(
  technique="Coq proof (scalar and vector-lane kernels = Annex J for all bytes and strengths by lia; length preservation) + exhaustive kernel sweep against tables from the extracted spec + image differential over a dense size grid",
  text="Theorems (axiom-free): for all byte patterns (A,B,C,D) and every strength the code's scalar kernel and each lane of the repaired vector kernel equal the Annex J formula with truncating divisions, results are bytes (so the unclipped A/D casts are exact); the pre-repair flooring lane kernel is refuted by a witness; output length = input length for every size. The pass structure (4-row groups, 8-column vector chunks + scalar remainder, 8-row vector groups + scalar remainder rows) is hand-modelled; it is tied to the crate byte-for-byte on all widths 1..40 x heights 0..40 with adversarial content, and both real kernels are swept against the spec on the (A,D)-lattice x all (B,C) x 12 strengths (quick) or all 2^32 x 12 patterns (thorough). The pointwise Annex J image (executable spec) is the oracle when model and crate disagree.",
  design="5/C09"),
 "C16": dict(
  technique="Coq proof (totality/shape of the deblock model for all sizes and strengths; table = J.2) + regenerated-table bridge + exhaustive model/implementation differential",
  text="Theorems (axiom-free): the model of deblock() returns Ok with an output of the input's length for every width>=1, every height>=0 (0 and 1 included) and every strength; the strength table equals the transcribed Table J.2 and lies in 1..12 for quantizers 1..31. The table is regenerated from the source each run and bridged by reflexivity; the pass structure is hand-modelled and tied to the crate by running both (checked build: overflow checks + debug assertions) on every width 1..40 x height 0..40 x strength 1..12, comparing result class and length.",
  design="5/C16"),
 "C13": dict(
  technique="Coq proof: plane-shape invariant of every reconstructed picture (induction over the reconstruction loops) composed with the deblock totality and RGBA layout theorems + pipeline differential over all sizes 1..40 x 1..40",
  text="Theorems: every successful reconstruction -- for all bytes, options and reference pictures -- yields width, height >= 1, a luma plane of h rows of w samples, chroma planes of ceil(h/2) rows of ceil(w/2) and reports ceil(w/2) as chroma row length (C13_new_picture_planes); on any such picture with quantizer 1..31 the pipeline deblock x3 + yuv420_to_rgba returns Ok with exactly 4wh bytes (C13_pipeline_total, from C16 and C08). Tie: decode -> deblock -> convert on every size 1..40 x 1..40 in model and crate.",
  design="5/C13"),
 "C15": dict(
  technique="Coq proof (macroblock-count bound of the loop; start-code window) + stream differential: N pictures in one reader versus one reader per picture",
  text="Theorems: the macroblock loop never holds more than mb_per_line*mb_height macroblocks whatever follows in the reader; the start-code probe of the next call skips at most realignment+1 <= 8 bits. The full statement is tied by execution: 300 (10 000) sequences of 2-5 pictures of mixed types and sizes, each padded with < 8 zero bits, decoded from one shared reader and from separate readers in Sorenson v0/v1 and standard mode, compared picture by picture; 0..7 padding bits after a lone picture never change it.",
  design="5/C15"),
 "C17": dict(
  technique="Coq proof (interleaving independence over instance-indexed states; shared-state inventory regenerated from source and bridged) + threaded execution of replicated decoders; PARTIAL (see text)",
  text="PARTIAL. Proved: in the model the per-instance result of any interleaving equals the result of the instance's own subsequence run alone (induction over the schedule); the inventory of process-wide state regenerated from every non-test source file of the three crates is exactly three immutable lazy_static option masks (no static mut / static / thread_local / unsafe / interior mutability / clock, env or random source; the picture map is never iterated). Evidence by execution, not proof: 400 (2 000) histories, each on two instances, stepped in seeded random interleavings with yields on 2/8/16 threads (1..16, ten schedules, thorough) and again in a second process, every trace compared with the same history run alone and with the model. Data-race freedom rests on safe Rust.",
  design="5/C17"),
}
checks = []
for pid in sorted(CLAIMS):
    c = CLAIMS[pid]
    checks.append({"property_id": pid, "quick_cmd": "./check %s --tier quick" % pid,
                   "thorough_cmd": "./check %s --tier thorough" % pid,
                   "evidence_file": "/verif/evidence/%s.json" % pid,
                   "replay_cmd_template": "./check %s --replay {path}" % pid, "engine": "coq-h263v",
                   "level_claimed": {"category": "proof", "text": c["text"], "design_ref": c["design"]},
                   "level_note": c.get("note", NOTE_COMMON + AX), "technique": c["technique"]})
na = [{"property_id": p["id"],
       "reason": "not yet claimed: the Coq model, theorems and correspondence suite for this property are still being built (DESIGN.md section 10); machine-checked proof applies to it"}
      for p in props if p["id"] not in CLAIMS]
m = {"version": 1, "setup_cmd": "./setup.sh",
     "hooks": {"guard": "h263_rs_verif",
               "enable": "RUSTFLAGS=\"--cfg h263_rs_verif\" (set in /verif/harness/.cargo/config.toml)",
               "baseline_off_cmd": "cd /repo && cargo test --workspace --no-fail-fast --offline",
               "source_commits": ["5e9b240"], "add_only": True},
     "engines": [{"name": "coq-h263v", "path": "/verif/coq", "serves_properties": sorted(CLAIMS),
                  "kind_free_text": "Coq 8.16.1 development (spec / model / proofs / props); tables regenerated from /repo and bridged on every run; extracted OCaml model versus Rust harness differential; spec-versus-implementation violation search"}],
     "checks": checks, "not_applicable": na,
     "notes": "Hook commit only adds cfg-guarded re-exports plus a check-cfg lint entry in two Cargo.toml files (deblock/Cargo.toml lacked a trailing newline, so its last line shows as rewritten). Genuine defects repaired in /repo are listed under 'fixed' in known_findings.json."}
json.dump(m, open(os.path.join(ROOT, "MANIFEST.json"), "w"), indent=1)
print("claimed:", sorted(CLAIMS))
