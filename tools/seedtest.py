#!/usr/bin/env python3
"""Apply each seeded change to /repo, run the given checks, undo. Usage: seedtest.py <seed-dir> <PID> [<PID>...]"""
import json, os, subprocess, sys, time
seed = os.path.abspath(sys.argv[1])
pids = sys.argv[2:]
patch = os.path.join(seed, "patch.diff")
r = subprocess.run(["git", "-C", "/repo", "apply", "--check", patch], stdout=subprocess.PIPE, stderr=subprocess.STDOUT)
if r.returncode != 0:
    print("PATCH DOES NOT APPLY:", r.stdout.decode()); sys.exit(2)
subprocess.run(["git", "-C", "/repo", "apply", patch], check=True)
res = {}
try:
    for pid in pids:
        t = time.time()
        p = subprocess.run(["./check", pid], cwd="/verif", stdout=subprocess.PIPE, stderr=subprocess.PIPE)
        out = p.stdout.decode()
        viol = [l for l in out.split("\n") if l.startswith("VIOLATION")]
        detail = [l for l in p.stderr.decode().split("\n") if l.startswith("[check]    ")][:2]
        res[pid] = {"exit": p.returncode, "violations": viol[:3], "detail": detail, "wall_s": round(time.time() - t, 1)}
        print(pid, "exit", p.returncode, viol[:2], detail[:1])
finally:
    subprocess.run(["git", "-C", "/repo", "checkout", "--", "."], check=True)
json.dump(res, open(os.path.join(seed, "result.json"), "w"), indent=1)
