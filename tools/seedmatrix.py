#!/usr/bin/env python3
"""For every seeded change: apply it to /repo, run ALL quick checks (in parallel), undo. Writes seeded/MATRIX.json:
which checks alarm on which change.  An alarm of a check on a change that does not break its property would be a
false alarm; the matrix is reviewed by hand (DESIGN.md 11.6)."""
import json, os, subprocess, sys, time
from concurrent.futures import ThreadPoolExecutor
ROOT = "/verif"
PIDS = ["C%02d" % i for i in range(1, 18)]
seeds = sorted(d for d in os.listdir(ROOT + "/seeded") if os.path.isdir(ROOT + "/seeded/" + d))
if len(sys.argv) > 1:
    seeds = sys.argv[1:]
out_path = ROOT + "/seeded/MATRIX.json"
matrix = json.load(open(out_path)) if os.path.exists(out_path) else {}

def run_check(pid):
    p = subprocess.run(["./check", pid], cwd=ROOT, stdout=subprocess.PIPE, stderr=subprocess.PIPE)
    out = p.stdout.decode()
    viol = [l for l in out.split("\n") if l.startswith("VIOLATION")]
    detail = [l.strip() for l in p.stderr.decode().split("\n") if l.startswith("[check]    ")][:1]
    return pid, {"exit": p.returncode, "violations": len(viol), "no_input": any("no-failing-input-found" in v for v in viol), "detail": (detail[0][:160] if detail else "")}

for s in seeds:
    patch = "%s/seeded/%s/patch.diff" % (ROOT, s)
    subprocess.run(["git", "-C", "/repo", "checkout", "--", "."], check=True)
    subprocess.run(["git", "-C", "/repo", "apply", patch], check=True)
    t = time.time()
    try:
        # build once, then all checks in parallel
        first = run_check(s.split("-")[0])
        with ThreadPoolExecutor(max_workers=6) as ex:
            res = dict(ex.map(run_check, [p for p in PIDS if p != first[0]]))
        res[first[0]] = first[1]
    finally:
        subprocess.run(["git", "-C", "/repo", "checkout", "--", "."], check=True)
    matrix[s] = {k: res[k] for k in sorted(res)}
    json.dump(matrix, open(out_path, "w"), indent=1)
    print(s, "alarms:", [k for k in sorted(res) if res[k]["exit"] != 0], "%.0fs" % (time.time() - t), flush=True)
