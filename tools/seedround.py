#!/usr/bin/env python3
"""Take a sub-agent's delivery /tmp/w2_<PID>/SEED into seeded/<PID>-<suffix>, confirm it independently in a scratch
worktree, run the named checks against it (default: the property's own), merge everything into meta.json and remove
the agent's worktree.  Usage: seedround.py <PID> <suffix> [<check PID>...]"""
import json, os, shutil, subprocess, sys
pid, suf = sys.argv[1], sys.argv[2]
checks = sys.argv[3:] or [pid]
src = "/tmp/%s_%s/SEED" % (os.environ.get("SEED_WT", "w2"), pid)
dst = "/verif/seeded/%s-%s" % (pid, suf)
if os.path.isdir(src):
    os.makedirs(dst, exist_ok=True)
    for f in ("patch.diff", "demo.rs", "meta.json"):
        shutil.copy(os.path.join(src, f), dst)
subprocess.run([sys.executable, "/verif/tools/seedconfirm.py", dst], check=True)
conf = json.load(open(os.path.join(dst, "confirm.json")))
subprocess.run([sys.executable, "/verif/tools/seedtest.py", dst] + checks)
res = json.load(open(os.path.join(dst, "result.json")))
meta = json.load(open(os.path.join(dst, "meta.json")))
meta["confirmed_by_me"] = {k: conf.get(k) for k in ("existing_suite_with_change", "demo_with_change", "demo_without_change", "confirmed")}
meta["confirmed_by_me"]["command"] = "python3 tools/seedconfirm.py " + dst
meta.setdefault("checks_run_against_it", {}).update(res)
json.dump(meta, open(os.path.join(dst, "meta.json"), "w"), indent=1)
os.remove(os.path.join(dst, "confirm.json")); os.remove(os.path.join(dst, "result.json"))
wt = "/tmp/%s_%s" % (os.environ.get("SEED_WT", "w2"), pid)
if os.path.isdir(wt) and conf.get("confirmed"):
    subprocess.run(["git", "-C", "/repo", "worktree", "remove", "--force", wt])
print("SEED", pid, suf, "confirmed" if conf.get("confirmed") else "NOT CONFIRMED", {k: (v["exit"], len(v["violations"])) for k, v in res.items()})
