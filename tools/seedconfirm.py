#!/usr/bin/env python3
"""Confirm a seeded change independently in a scratch worktree: existing suite passes with the change; the
demonstration fails with the change and passes without it. Writes confirm.json into the seed directory."""
import json, os, re, shutil, subprocess, sys
seed = os.path.abspath(sys.argv[1])
name = os.path.basename(seed.rstrip("/"))
pid = name.split("-")[0]
wt = "/tmp/confirm_" + name
env = dict(os.environ, CARGO_NET_OFFLINE="true", CARGO_TARGET_DIR="/tmp/confirm_target")
def sh(cmd, cwd=wt):
    p = subprocess.run(cmd, cwd=cwd, shell=True, stdout=subprocess.PIPE, stderr=subprocess.STDOUT, env=env)
    return p.returncode, p.stdout.decode()
subprocess.run(["git", "-C", "/repo", "worktree", "add", "-q", "--detach", wt, "HEAD"], check=True)
res = {"seed": name, "property": pid}
try:
    shutil.copy("/repo/Cargo.lock", wt)
    head = open(os.path.join(seed, "demo.rs")).read(1500)
    m = re.search(r"(h263|yuv|deblock)/tests/(demo_\w+)\.rs", head)
    crate_dir, test = m.group(1), m.group(2)
    pkg = {"h263": "h263-rs", "yuv": "h263-rs-yuv", "deblock": "h263-rs-deblock"}[crate_dir]
    rc, out = sh("git apply %s/patch.diff" % seed)
    res["patch_applies"] = rc == 0
    rc, out = sh("cargo test --workspace --offline 2>&1 | grep -E 'test result' ")
    passed = sum(int(x) for x in re.findall(r"(\d+) passed", out))
    failed = sum(int(x) for x in re.findall(r"(\d+) failed", out))
    res["existing_suite_with_change"] = {"passed": passed, "failed": failed}
    os.makedirs(os.path.join(wt, crate_dir, "tests"), exist_ok=True)
    shutil.copy(os.path.join(seed, "demo.rs"), os.path.join(wt, crate_dir, "tests", test + ".rs"))
    rc1, out1 = sh("cargo test --offline -p %s --test %s 2>&1 | tail -5" % (pkg, test))
    res["demo_with_change"] = "fails" if rc1 != 0 or "FAILED" in out1 or "failed" in out1.split("test result")[-1][:40] and " 0 failed" not in out1 else "passes"
    sh("git apply -R %s/patch.diff" % seed)
    rc2, out2 = sh("cargo test --offline -p %s --test %s 2>&1 | tail -5" % (pkg, test))
    res["demo_without_change"] = "passes" if (" 0 failed" in out2 and "test result: ok" in out2) else "fails"
    res["confirmed"] = (res["patch_applies"] and passed == 34 and failed == 0 and res["demo_with_change"] == "fails" and res["demo_without_change"] == "passes")
finally:
    subprocess.run(["git", "-C", "/repo", "worktree", "remove", "--force", wt])
json.dump(res, open(os.path.join(seed, "confirm.json"), "w"), indent=1)
print(json.dumps(res))
