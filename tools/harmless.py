#!/usr/bin/env python3
"""Robustness of tie 1 against behaviour-preserving rewrites.

Usage: harmless.py <patch.diff> [...]
For each patch: apply it to /repo, regenerate coq/gen from the patched source, rebuild every bridge and every property file
(`make -k`), report which items became untranslatable and which targets no longer build, undo the patch.  No differential
suite is run: a behaviour-preserving rewrite cannot change those.  The output says what a full check would have reported as
`no-failing-input-found` for that rewrite.
"""
import glob, json, os, re, subprocess, sys
sys.path.insert(0, os.path.join(os.path.dirname(os.path.abspath(__file__)), ".."))
from vlib import common


def targets():
    out = []
    for d in ("bridge", "props"):
        for f in sorted(glob.glob(os.path.join(common.COQ, d, "*.v"))):
            out.append("%s/%s.vo" % (d, os.path.basename(f)[:-2]))
    return out


def one(patch):
    r = subprocess.run(["git", "-C", "/repo", "apply", "--check", patch], stdout=subprocess.PIPE, stderr=subprocess.STDOUT)
    if r.returncode != 0:
        return {"patch": patch, "error": "does not apply: " + r.stdout.decode()[-200:]}
    subprocess.run(["git", "-C", "/repo", "apply", patch], check=True)
    try:
        with common.Lock():
            st = common.regen()
            bad_items = {k: v for k, v in st.items() if v != "ok" and not str(v).startswith("ok")}
            common.write_coqproject()
            rc, out = common.run(["make", "-k", "-j16"] + targets(), cwd=common.COQ, timeout=3000)
            failing = sorted(set(re.findall(r'File "\./([^"]+)", line \d+', out)))
        return {"patch": patch, "untranslatable": bad_items, "failing_files": failing, "make_rc": rc}
    finally:
        subprocess.run(["git", "-C", "/repo", "checkout", "--", "."], check=True)


if __name__ == "__main__":
    res = [one(os.path.abspath(p)) for p in sys.argv[1:]]
    # leave coq/gen and the build as they are for the clean tree
    with common.Lock():
        common.regen()
        common.run(["make", "-k", "-j16"] + targets(), cwd=common.COQ, timeout=3000)
    for r in res:
        print(json.dumps(r))
