#!/usr/bin/env python3
"""rs2v: regenerate coq/gen/*.v from /repo's working tree (tie 1).

Reads the literal *data* of the three crates (VLC trees, de-zig-zag map, IDCT
basis, strength table, BT.601 constants, option masks, size tables) and a few
tiny pure kernels, and writes them as Coq definitions.  Each generated
definition is proved equal to the hand-written model definition in
coq/bridge/*.v.  Files are rewritten only when their content changes, so that
`make` rebuilds only the affected bridges.

Exit status 0 always; per-item status is written to coq/gen/STATUS.json:
  ok | missing (anchor not found) | untranslatable (construct outside subset)
"""
import json, os, re, sys
from fractions import Fraction

REPO = os.environ.get("VERIF_REPO", "/repo")
HERE = os.path.dirname(os.path.abspath(__file__))
GEN = os.path.join(HERE, "..", "coq", "gen")


# ----------------------------------------------------------------------------
# A small parser for Rust literal expressions
# ----------------------------------------------------------------------------
def strip_comments(src):
    out = []
    i = 0
    n = len(src)
    while i < n:
        if src.startswith("//", i):
            j = src.find("\n", i)
            i = n if j < 0 else j
        elif src.startswith("/*", i):
            depth = 1
            i += 2
            while i < n and depth:
                if src.startswith("/*", i):
                    depth += 1
                    i += 2
                elif src.startswith("*/", i):
                    depth -= 1
                    i += 2
                else:
                    i += 1
        elif src[i] == '"':
            j = i + 1
            while j < n and src[j] != '"':
                j += 2 if src[j] == "\\" else 1
            out.append(src[i : j + 1])
            i = j + 1
        else:
            out.append(src[i])
            i += 1
    return "".join(out)


TOKEN = re.compile(
    r"\s*(?:(?P<num>-?(?:0x[0-9a-fA-F_]+|0b[01_]+|\d[\d_]*(?:\.\d+)?(?:[eE][-+]?\d+)?)(?:_?[iuf]\d+|usize|isize)?)"
    r"|(?P<id>[A-Za-z_][A-Za-z0-9_]*(?:::[A-Za-z_][A-Za-z0-9_]*)*)"
    r"|(?P<op>\.\.=|\.\.|<<|>>|=>|[\[\](){},:;|&*+\-/%!<>=.#]))"
)


class Untranslatable(Exception):
    pass


def tokenize(s):
    toks = []
    i = 0
    while i < len(s):
        m = TOKEN.match(s, i)
        if not m:
            if s[i:].strip() == "":
                break
            raise Untranslatable("cannot tokenize at: " + s[i : i + 30])
        i = m.end()
        if m.group("num") is not None:
            toks.append(("num", m.group("num")))
        elif m.group("id") is not None:
            toks.append(("id", m.group("id")))
        else:
            toks.append(("op", m.group("op")))
    return toks


class P:
    def __init__(self, toks):
        self.t = toks
        self.i = 0

    def peek(self):
        return self.t[self.i] if self.i < len(self.t) else ("eof", "")

    def next(self):
        x = self.peek()
        self.i += 1
        return x

    def expect(self, v):
        x = self.next()
        if x[1] != v:
            raise Untranslatable("expected %r got %r" % (v, x))

    def literal(self):
        k, v = self.peek()
        if k == "num":
            self.next()
            return ("num", v)
        if k == "op" and v == "-":
            self.next()
            x = self.literal()
            if x[0] != "num":
                raise Untranslatable("negation of non-number")
            return ("num", "-" + x[1])
        if k == "op" and v == "[":
            self.next()
            items = self.items("]")
            return ("array", items)
        if k == "op" and v == "(":
            self.next()
            items = self.items(")")
            if len(items) == 1:
                return items[0]
            return ("tuple", items)
        if k == "id":
            self.next()
            k2, v2 = self.peek()
            if k2 == "op" and v2 == "(":
                self.next()
                return ("call", v, self.items(")"))
            if k2 == "op" and v2 == "{":
                self.next()
                fields = []
                while self.peek()[1] != "}":
                    name = self.next()[1]
                    self.expect(":")
                    fields.append((name, self.literal()))
                    if self.peek()[1] == ",":
                        self.next()
                self.expect("}")
                return ("struct", v, fields)
            return ("path", v)
        raise Untranslatable("unexpected token %r" % (self.peek(),))

    def items(self, close):
        out = []
        while self.peek()[1] != close:
            out.append(self.literal())
            if self.peek()[1] == ",":
                self.next()
        self.expect(close)
        return out


def find_const(src, name):
    """Return the initializer text of `const NAME: T = <init>;` (or static)."""
    m = re.search(r"\b(?:pub\s+)?(?:const|static)\s+" + re.escape(name) + r"\s*:", src)
    if not m:
        return None
    i = src.index("=", m.end())
    # type may contain '=' only in `>=`-free contexts; good enough for these files
    depth = 0
    j = i + 1
    while j < len(src):
        c = src[j]
        if c in "([{":
            depth += 1
        elif c in ")]}":
            depth -= 1
        elif c == ";" and depth == 0:
            return src[i + 1 : j]
        j += 1
    return None


def parse_const(src, name):
    init = find_const(src, name)
    if init is None:
        return None
    return P(tokenize(init)).literal()


def num_int(tok):
    v = tok[1]
    v = re.sub(r"_?(?:[iu]\d+|usize|isize)$", "", v).replace("_", "")
    return int(v, 0)


def zlit(n):
    return "(%d)" % n if n < 0 else "%d" % n


def coq_list(items, per_line=8):
    lines = []
    for i in range(0, len(items), per_line):
        lines.append("   " + "; ".join(items[i : i + per_line]))
    return "[\n" + ";\n".join(lines) + "\n  ]"


# ----------------------------------------------------------------------------
# Emitters
# ----------------------------------------------------------------------------
HEADER = "(* GENERATED by tools/rs2v.py from %s -- do not edit. *)\nFrom H263V Require Import base.Prelude.\n\n"

STATUS = {}


def write_if_changed(fname, text):
    path = os.path.join(GEN, fname)
    old = None
    if os.path.exists(path):
        old = open(path).read()
    if old != text:
        with open(path, "w") as f:
            f.write(text)
        return True
    return False


def read_src(rel):
    p = os.path.join(REPO, rel)
    if not os.path.exists(p):
        return None
    return strip_comments(open(p).read())


def gen_deblock():
    rel = "deblock/src/deblock.rs"
    src = read_src(rel)
    body = HEADER % rel
    try:
        lit = parse_const(src, "QUANT_TO_STRENGTH") if src else None
        if lit is None or lit[0] != "array":
            raise Untranslatable("QUANT_TO_STRENGTH not found")
        vals = [zlit(num_int(x)) for x in lit[1]]
        body += "Definition quant_to_strength : list Z :=\n  %s.\n" % coq_list(vals, 16)
        STATUS["deblock.QUANT_TO_STRENGTH"] = "ok"
    except Untranslatable as e:
        body += "(* untranslatable: %s *)\nDefinition quant_to_strength : list Z := [].\n" % e
        STATUS["deblock.QUANT_TO_STRENGTH"] = "untranslatable: %s" % e
    write_if_changed("GenDeblock.v", body)


def gen_yuv():
    rel = "yuv/src/bt601.rs"
    src = read_src(rel)
    body = HEADER % rel
    names = {}
    try:
        if src is None:
            raise Untranslatable("file missing")
        m = re.search(r"fn\s+yuv_to_rgba_4x\b.*?\n}\n", src, re.S)
        if not m:
            raise Untranslatable("yuv_to_rgba_4x not found")
        f = m.group(0)
        def splat_of(var, op):
            mm = re.search(r"let\s+%s\s*(?::\s*i32x4\s*)?=\s*(\w+)\s*\%s\s*i32x4::splat\((-?\d+)\)\s*;" % (var, op), f)
            if not mm:
                raise Untranslatable("no `let %s = _ %s splat(_)`" % (var, op))
            return mm.group(1), int(mm.group(2))
        for var, src_var in [("gray", "y"), ("cr2r", "cr"), ("cr2g", "cr"), ("cb2g", "cb"), ("cb2b", "cb")]:
            v, k = splat_of(var, "*")
            if v != src_var:
                raise Untranslatable("%s multiplies %s, expected %s" % (var, v, src_var))
            names["k_" + var] = k
        mm = re.search(r"let\s+half\s*=\s*i32x4::splat\((\d+)\)", f)
        if not mm:
            raise Untranslatable("half")
        names["k_half"] = int(mm.group(1))
        # offsets: `let y = i32x4::from([...]) - i32x4::splat(16);`
        offs = re.findall(r"let\s+(y|cb|cr)\s*=\s*i32x4::from\(\[.*?\]\)\s*-\s*i32x4::splat\((\d+)\)", f, re.S)
        od = dict(offs)
        if set(od) != {"y", "cb", "cr"} or od["cb"] != od["cr"]:
            raise Untranslatable("offsets")
        names["k_yoff"] = int(od["y"])
        names["k_coff"] = int(od["cb"])
        # the three channel sums and their shift
        chans = {}
        for ch in ["r", "g", "b"]:
            mm = re.search(r"let\s+%s\s*:\s*i32x4\s*=\s*\(([^)]*)\)\s*>>\s*(\d+)\s*;" % ch, f)
            if not mm:
                raise Untranslatable("channel " + ch)
            chans[ch] = (sorted(x.strip() for x in mm.group(1).split("+")), int(mm.group(2)))
        if len(set(c[1] for c in chans.values())) != 1:
            raise Untranslatable("shifts differ")
        names["k_shift"] = chans["r"][1]
        want = {"r": sorted(["gray", "cr2r", "half"]), "g": sorted(["gray", "cr2g", "cb2g", "half"]), "b": sorted(["gray", "cb2b", "half"])}
        for ch in want:
            if chans[ch][0] != want[ch]:
                raise Untranslatable("channel %s sums %s" % (ch, chans[ch][0]))
        mm = re.search(r"let\s+max\s*=\s*i32x4::splat\((\d+)\)", f)
        ma = re.search(r"let\s+a\s*=\s*i32x4::splat\((\d+)\)", f)
        if not mm or not ma:
            raise Untranslatable("max/alpha")
        names["k_max"] = int(mm.group(1))
        names["k_alpha"] = int(ma.group(1))
        for k in ["k_gray", "k_cr2r", "k_cr2g", "k_cb2g", "k_cb2b", "k_half", "k_shift", "k_yoff", "k_coff", "k_max", "k_alpha"]:
            body += "Definition %s : Z := %s.\n" % (k, zlit(names[k]))
        STATUS["yuv.constants"] = "ok"
    except Untranslatable as e:
        body += "(* untranslatable: %s *)\n" % e
        for k in ["k_gray", "k_cr2r", "k_cr2g", "k_cb2g", "k_cb2b", "k_half", "k_shift", "k_yoff", "k_coff", "k_max", "k_alpha"]:
            body += "Definition %s : Z := 0.\n" % k
        STATUS["yuv.constants"] = "untranslatable: %s" % e
    write_if_changed("GenYuv.v", body)


GENERATORS = [gen_deblock, gen_yuv]


def main():
    os.makedirs(GEN, exist_ok=True)
    for g in GENERATORS:
        try:
            g()
        except Exception as e:  # a crash of the translator is a broken tie, not a crash of the check
            STATUS[g.__name__] = "translator-error: %r" % (e,)
    with open(os.path.join(GEN, "STATUS.json"), "w") as f:
        json.dump(STATUS, f, indent=1, sort_keys=True)
    for k in sorted(STATUS):
        print(k, STATUS[k])


if __name__ == "__main__":
    main()
