#!/usr/bin/env python3
"""rs2v: regenerate coq/gen/*.v from /repo's working tree (tie 1).

Reads the literal *data* of the three crates (VLC trees, de-zig-zag map, IDCT
basis, strength table, BT.601 constants, option masks, size tables) and a few
tiny pure kernels, and writes them as Coq definitions.  Each generated
definition is proved equal to the hand-written model definition in
coq/bridge/*.v.  Files are rewritten only when their content changes, so that
`make` rebuilds only the affected bridges.

Exit status 0 always; per-item status is written to coq/gen/STATUS.json:
  ok | missing (anchor not found) | untranslatable (construct outside subset)
"""
import json, os, re, sys
from fractions import Fraction

REPO = os.environ.get("VERIF_REPO", "/repo")
HERE = os.path.dirname(os.path.abspath(__file__))
GEN = os.path.join(HERE, "..", "coq", "gen")


# ----------------------------------------------------------------------------
# A small parser for Rust literal expressions
# ----------------------------------------------------------------------------
def strip_comments(src):
    out = []
    i = 0
    n = len(src)
    while i < n:
        if src.startswith("//", i):
            j = src.find("\n", i)
            i = n if j < 0 else j
        elif src.startswith("/*", i):
            depth = 1
            i += 2
            while i < n and depth:
                if src.startswith("/*", i):
                    depth += 1
                    i += 2
                elif src.startswith("*/", i):
                    depth -= 1
                    i += 2
                else:
                    i += 1
        elif src[i] == '"':
            j = i + 1
            while j < n and src[j] != '"':
                j += 2 if src[j] == "\\" else 1
            out.append(src[i : j + 1])
            i = j + 1
        else:
            out.append(src[i])
            i += 1
    return "".join(out)


TOKEN = re.compile(
    r"\s*(?:(?P<num>-?(?:0x[0-9a-fA-F_]+|0b[01_]+|\d[\d_]*(?:\.\d+)?(?:[eE][-+]?\d+)?)(?:_?[iuf]\d+|usize|isize)?)"
    r"|(?P<id>[A-Za-z_][A-Za-z0-9_]*(?:::[A-Za-z_][A-Za-z0-9_]*)*)"
    r"|(?P<op>\.\.=|\.\.|<<|>>|=>|[\[\](){},:;|&*+\-/%!<>=.#]))"
)


class Untranslatable(Exception):
    pass


def tokenize(s):
    toks = []
    i = 0
    while i < len(s):
        m = TOKEN.match(s, i)
        if not m:
            if s[i:].strip() == "":
                break
            raise Untranslatable("cannot tokenize at: " + s[i : i + 30])
        i = m.end()
        if m.group("num") is not None:
            toks.append(("num", m.group("num")))
        elif m.group("id") is not None:
            toks.append(("id", m.group("id")))
        else:
            toks.append(("op", m.group("op")))
    return toks


class P:
    def __init__(self, toks):
        self.t = toks
        self.i = 0

    def peek(self):
        return self.t[self.i] if self.i < len(self.t) else ("eof", "")

    def next(self):
        x = self.peek()
        self.i += 1
        return x

    def expect(self, v):
        x = self.next()
        if x[1] != v:
            raise Untranslatable("expected %r got %r" % (v, x))

    def literal(self):
        k, v = self.peek()
        if k == "num":
            self.next()
            return ("num", v)
        if k == "op" and v == "-":
            self.next()
            x = self.literal()
            if x[0] != "num":
                raise Untranslatable("negation of non-number")
            return ("num", "-" + x[1])
        if k == "op" and v == "[":
            self.next()
            items = self.items("]")
            return ("array", items)
        if k == "op" and v == "(":
            self.next()
            items = self.items(")")
            if len(items) == 1:
                return items[0]
            return ("tuple", items)
        if k == "id":
            self.next()
            k2, v2 = self.peek()
            if k2 == "op" and v2 == "(":
                self.next()
                return ("call", v, self.items(")"))
            if k2 == "op" and v2 == "{":
                self.next()
                fields = []
                while self.peek()[1] != "}":
                    name = self.next()[1]
                    self.expect(":")
                    fields.append((name, self.literal()))
                    if self.peek()[1] == ",":
                        self.next()
                self.expect("}")
                return ("struct", v, fields)
            return ("path", v)
        raise Untranslatable("unexpected token %r" % (self.peek(),))

    def items(self, close):
        out = []
        while self.peek()[1] != close:
            out.append(self.literal())
            if self.peek()[1] == ",":
                self.next()
        self.expect(close)
        return out


def find_const(src, name):
    """Return the initializer text of `const NAME: T = <init>;` (or static)."""
    m = re.search(r"\b(?:pub\s+)?(?:const|static)\s+" + re.escape(name) + r"\s*:", src)
    if not m:
        return None
    i = src.index("=", m.end())
    # type may contain '=' only in `>=`-free contexts; good enough for these files
    depth = 0
    j = i + 1
    while j < len(src):
        c = src[j]
        if c in "([{":
            depth += 1
        elif c in ")]}":
            depth -= 1
        elif c == ";" and depth == 0:
            return src[i + 1 : j]
        j += 1
    return None


def parse_const(src, name):
    init = find_const(src, name)
    if init is None:
        return None
    return P(tokenize(init)).literal()


def num_int(tok):
    v = tok[1]
    v = re.sub(r"_?(?:[iu]\d+|usize|isize)$", "", v).replace("_", "")
    return int(v, 0)


def zlit(n):
    return "(%d)" % n if n < 0 else "%d" % n


def coq_list(items, per_line=8):
    lines = []
    for i in range(0, len(items), per_line):
        lines.append("   " + "; ".join(items[i : i + per_line]))
    return "[\n" + ";\n".join(lines) + "\n  ]"


# ----------------------------------------------------------------------------
# Emitters
# ----------------------------------------------------------------------------
HEADER = "(* GENERATED by tools/rs2v.py from %s -- do not edit. *)\nFrom H263V Require Import base.Prelude.\n\n"

STATUS = {}


def write_if_changed(fname, text):
    path = os.path.join(GEN, fname)
    old = None
    if os.path.exists(path):
        old = open(path).read()
    if old != text:
        with open(path, "w") as f:
            f.write(text)
        return True
    return False


def read_src(rel):
    p = os.path.join(REPO, rel)
    if not os.path.exists(p):
        return None
    return strip_comments(open(p).read())


def gen_deblock():
    rel = "deblock/src/deblock.rs"
    src = read_src(rel)
    body = HEADER % rel
    try:
        lit = parse_const(src, "QUANT_TO_STRENGTH") if src else None
        if lit is None or lit[0] != "array":
            raise Untranslatable("QUANT_TO_STRENGTH not found")
        vals = [zlit(num_int(x)) for x in lit[1]]
        body += "Definition quant_to_strength : list Z :=\n  %s.\n" % coq_list(vals, 16)
        STATUS["deblock.QUANT_TO_STRENGTH"] = "ok"
    except Untranslatable as e:
        body += "(* untranslatable: %s *)\nDefinition quant_to_strength : list Z := [].\n" % e
        STATUS["deblock.QUANT_TO_STRENGTH"] = "untranslatable: %s" % e
    write_if_changed("GenDeblock.v", body)


def gen_yuv():
    rel = "yuv/src/bt601.rs"
    src = read_src(rel)
    body = HEADER % rel
    names = {}
    try:
        if src is None:
            raise Untranslatable("file missing")
        m = re.search(r"fn\s+yuv_to_rgba_4x\b.*?\n}\n", src, re.S)
        if not m:
            raise Untranslatable("yuv_to_rgba_4x not found")
        f = m.group(0)
        def splat_of(var, op):
            mm = re.search(r"let\s+%s\s*(?::\s*i32x4\s*)?=\s*(\w+)\s*\%s\s*i32x4::splat\((-?\d+)\)\s*;" % (var, op), f)
            if not mm:
                raise Untranslatable("no `let %s = _ %s splat(_)`" % (var, op))
            return mm.group(1), int(mm.group(2))
        for var, src_var in [("gray", "y"), ("cr2r", "cr"), ("cr2g", "cr"), ("cb2g", "cb"), ("cb2b", "cb")]:
            v, k = splat_of(var, "*")
            if v != src_var:
                raise Untranslatable("%s multiplies %s, expected %s" % (var, v, src_var))
            names["k_" + var] = k
        mm = re.search(r"let\s+half\s*=\s*i32x4::splat\((\d+)\)", f)
        if not mm:
            raise Untranslatable("half")
        names["k_half"] = int(mm.group(1))
        # offsets: `let y = i32x4::from([...]) - i32x4::splat(16);`
        offs = re.findall(r"let\s+(y|cb|cr)\s*=\s*i32x4::from\(\[.*?\]\)\s*-\s*i32x4::splat\((\d+)\)", f, re.S)
        od = dict(offs)
        if set(od) != {"y", "cb", "cr"} or od["cb"] != od["cr"]:
            raise Untranslatable("offsets")
        names["k_yoff"] = int(od["y"])
        names["k_coff"] = int(od["cb"])
        # the three channel sums and their shift
        chans = {}
        for ch in ["r", "g", "b"]:
            mm = re.search(r"let\s+%s\s*:\s*i32x4\s*=\s*\(([^)]*)\)\s*>>\s*(\d+)\s*;" % ch, f)
            if not mm:
                raise Untranslatable("channel " + ch)
            chans[ch] = (sorted(x.strip() for x in mm.group(1).split("+")), int(mm.group(2)))
        if len(set(c[1] for c in chans.values())) != 1:
            raise Untranslatable("shifts differ")
        names["k_shift"] = chans["r"][1]
        want = {"r": sorted(["gray", "cr2r", "half"]), "g": sorted(["gray", "cr2g", "cb2g", "half"]), "b": sorted(["gray", "cb2b", "half"])}
        for ch in want:
            if chans[ch][0] != want[ch]:
                raise Untranslatable("channel %s sums %s" % (ch, chans[ch][0]))
        mm = re.search(r"let\s+max\s*=\s*i32x4::splat\((\d+)\)", f)
        ma = re.search(r"let\s+a\s*=\s*i32x4::splat\((\d+)\)", f)
        if not mm or not ma:
            raise Untranslatable("max/alpha")
        names["k_max"] = int(mm.group(1))
        names["k_alpha"] = int(ma.group(1))
        for k in ["k_gray", "k_cr2r", "k_cr2g", "k_cb2g", "k_cb2b", "k_half", "k_shift", "k_yoff", "k_coff", "k_max", "k_alpha"]:
            body += "Definition %s : Z := %s.\n" % (k, zlit(names[k]))
        STATUS["yuv.constants"] = "ok"
    except Untranslatable as e:
        body += "(* untranslatable: %s *)\n" % e
        for k in ["k_gray", "k_cr2r", "k_cr2g", "k_cb2g", "k_cb2b", "k_half", "k_shift", "k_yoff", "k_coff", "k_max", "k_alpha"]:
            body += "Definition %s : Z := 0.\n" % k
        STATUS["yuv.constants"] = "untranslatable: %s" % e
    write_if_changed("GenYuv.v", body)


# ---------------------------------------------------------------- h263 tables
def f32_nearest(q):
    """nearest binary32 (ties to even) of an exact rational; returns (sign, mantissa, exponent) with value = +-m*2^e"""
    if q == 0:
        return (0, 0, 0)
    sign = 1 if q < 0 else 0
    a = abs(q)
    # find e with 2^23 <= a / 2^e < 2^24
    e = 0
    while a / Fraction(2) ** e >= 2 ** 24:
        e += 1
    while a / Fraction(2) ** e < 2 ** 23:
        e -= 1
    if e < -149:
        e = -149
    x = a / Fraction(2) ** e
    m = x.numerator // x.denominator
    rem = x - m
    if rem > Fraction(1, 2) or (rem == Fraction(1, 2) and m % 2 == 1):
        m += 1
    if m == 2 ** 24:
        m //= 2
        e += 1
    return (sign, m, e)


def dec_fraction(tok):
    v = re.sub(r"_?f(32|64)$", "", tok[1]).replace("_", "")
    return Fraction(v)


def leaf_bpe(x):
    if x == ("path", "BlockPatternEntry::Stuffing"):
        return "BpStuffing"
    if x == ("path", "BlockPatternEntry::Invalid"):
        return "BpInvalid"
    if x[0] == "call" and x[1] == "BlockPatternEntry::Valid":
        t, a, b = x[2]
        if t[0] != "path" or not t[1].startswith("MacroblockType::"):
            raise Untranslatable("mb type")
        return "(BpValid %s %s %s)" % (t[1].split("::")[1], boolv(a), boolv(b))
    raise Untranslatable("bpe leaf %r" % (x,))


def boolv(x):
    if x == ("path", "true"):
        return "true"
    if x == ("path", "false"):
        return "false"
    raise Untranslatable("bool %r" % (x,))


def leaf_modb(x):
    if x[0] == "tuple" and len(x[1]) == 2:
        return "(%s, %s)" % (boolv(x[1][0]), boolv(x[1][1]))
    raise Untranslatable("modb leaf")


def leaf_cbpy(x):
    if x == ("path", "None"):
        return "None"
    if x[0] == "call" and x[1] == "Some" and x[2][0][0] == "array" and len(x[2][0][1]) == 4:
        return "(Some [%s])" % "; ".join(boolv(b) for b in x[2][0][1])
    raise Untranslatable("cbpy leaf")


def leaf_mvd(x):
    if x == ("path", "None"):
        return "None"
    if x[0] == "call" and x[1] == "Some" and x[2][0][0] == "num":
        q = dec_fraction(x[2][0]) * 2          # HalfPel::from(f) = floor(f * 2)
        if q.denominator != 1:
            raise Untranslatable("MVD leaf %s is not a multiple of 0.5" % x[2][0][1])
        return "(Some %s)" % zlit(int(q))
    raise Untranslatable("mvd leaf")


def leaf_tcoef(x):
    if x == ("path", "None"):
        return "None"
    if x[0] == "call" and x[1] == "Some":
        y = x[2][0]
        if y == ("path", "EscapeToLong"):
            return "(Some EscapeToLong)"
        if y[0] == "struct" and y[1] == "Run":
            d = dict(y[2])
            return "(Some (Run %s %s %s))" % (boolv(d["last"]), zlit(num_int(d["run"])), zlit(num_int(d["level"])))
    raise Untranslatable("tcoef leaf %r" % (x,))


def emit_tree(lit, leaf):
    if lit is None or lit[0] != "array":
        raise Untranslatable("table literal not found")
    out = []
    for e in lit[1]:
        if e[0] == "call" and e[1] in ("Fork", "Entry::Fork"):
            out.append("Fork %d %d" % (num_int(e[2][0]), num_int(e[2][1])))
        elif e[0] == "call" and e[1] in ("End", "Entry::End"):
            out.append("End %s" % leaf(e[2][0]))
        else:
            raise Untranslatable("table entry %r" % (e,))
    return coq_list(out, 4)


TABLE_HEADER = "(* GENERATED by tools/rs2v.py from %s -- do not edit. *)\nFrom H263V Require Import base.Prelude model.Types.\n\n"


def gen_tables():
    body = TABLE_HEADER % "h263/src/parser/{macroblock,block}.rs, h263/src/decoder/cpu/{rle,idct}.rs, h263/src/types.rs"
    mb = read_src("h263/src/parser/macroblock.rs") or ""
    bl = read_src("h263/src/parser/block.rs") or ""
    items = [("mcbpc_i_table", mb, "MCBPC_I_TABLE", "entry bpe", leaf_bpe),
             ("mcbpc_p_table", mb, "MCBPC_P_TABLE", "entry bpe", leaf_bpe),
             ("modb_table", mb, "MODB_TABLE", "entry (bool * bool)", leaf_modb),
             ("cbpy_table_intra", mb, "CBPY_TABLE_INTRA", "entry (option (list bool))", leaf_cbpy),
             ("mvd_table", mb, "MVD_TABLE", "entry (option Z)", leaf_mvd),
             ("tcoef_table", bl, "TCOEF_TABLE", "entry (option short_tcoef)", leaf_tcoef)]
    for (name, src, const, ty, leaf) in items:
        try:
            body += "Definition %s : list (%s) :=\n  %s.\n\n" % (name, ty, emit_tree(parse_const(src, const), leaf))
            STATUS["h263." + const] = "ok"
        except Untranslatable as e:
            body += "(* untranslatable %s: %s *)\nDefinition %s : list (%s) := [].\n\n" % (const, e, name, ty)
            STATUS["h263." + const] = "untranslatable: %s" % e
    # DQUANT arms of decode_dquant
    try:
        # the first `match .. { .. }` of decode_dquant, whatever its scrutinee is called
        m = re.search(r"fn\s+decode_dquant\b.*?\bmatch\s+[^{;]+\{(.*?)\}", mb, re.S)
        if not m:
            raise Untranslatable("decode_dquant match not found")
        arms = re.findall(r"(\d+)\s*=>\s*(-?\d+)\s*,", m.group(1))
        d = dict((int(a), int(b)) for a, b in arms)
        if sorted(d) != [0, 1, 2, 3]:
            raise Untranslatable("decode_dquant arms %r" % (arms,))
        body += "Definition dquant_arms : list Z := [%s].\n\n" % "; ".join(zlit(d[i]) for i in range(4))
        STATUS["h263.decode_dquant"] = "ok"
    except Untranslatable as e:
        body += "(* untranslatable: %s *)\nDefinition dquant_arms : list Z := [].\n\n" % e
        STATUS["h263.decode_dquant"] = "untranslatable: %s" % e
    # de-zig-zag map
    rle = read_src("h263/src/decoder/cpu/rle.rs") or ""
    try:
        lit = parse_const(rle, "DEZIGZAG_MAPPING")
        if lit is None or lit[0] != "array":
            raise Untranslatable("DEZIGZAG_MAPPING not found")
        vals = ["(%s, %s)" % (zlit(num_int(t[1][0])), zlit(num_int(t[1][1]))) for t in lit[1]]
        body += "Definition dezigzag_mapping : list (Z * Z) :=\n  %s.\n\n" % coq_list(vals, 8)
        STATUS["h263.DEZIGZAG_MAPPING"] = "ok"
    except (Untranslatable, Exception) as e:
        body += "(* untranslatable: %s *)\nDefinition dezigzag_mapping : list (Z * Z) := [].\n\n" % e
        STATUS["h263.DEZIGZAG_MAPPING"] = "untranslatable: %s" % e
    # IDCT basis: decimal literals -> nearest binary32 as (sign, mantissa, exponent)
    idct = read_src("h263/src/decoder/cpu/idct.rs") or ""
    try:
        lit = parse_const(idct, "BASIS_TABLE")
        if lit is None or lit[0] != "array":
            raise Untranslatable("BASIS_TABLE not found")
        rows = []
        for r in lit[1]:
            cells = []
            for c in r[1]:
                s_, m_, e_ = f32_nearest(dec_fraction(c))
                cells.append("(%s, %d, %s)" % ("true" if s_ else "false", m_, zlit(e_)))
            rows.append("[" + "; ".join(cells) + "]")
        body += "Definition basis_table : list (list (bool * Z * Z)) :=\n  [\n   %s\n  ].\n\n" % ";\n   ".join(rows)
        STATUS["h263.BASIS_TABLE"] = "ok"
    except (Untranslatable, Exception) as e:
        body += "(* untranslatable: %s *)\nDefinition basis_table : list (list (bool * Z * Z)) := [].\n\n" % e
        STATUS["h263.BASIS_TABLE"] = "untranslatable: %s" % e
    # option bits and masks
    ty = read_src("h263/src/types.rs") or ""
    pic = read_src("h263/src/parser/picture.rs") or ""
    try:
        m = re.search(r"pub\s+struct\s+PictureOption\s*:\s*u32\s*\{(.*?)\n    \}", ty, re.S)
        if not m:
            raise Untranslatable("PictureOption not found")
        bits = dict((a, int(b, 2)) for a, b in re.findall(r"const\s+(\w+)\s*=\s*0b([01_]+)\s*;", m.group(1)))
        order = ["USE_SPLIT_SCREEN", "USE_DOCUMENT_CAMERA", "RELEASE_FULL_PICTURE_FREEZE", "UNRESTRICTED_MOTION_VECTORS",
                 "SYNTAX_BASED_ARITHMETIC_CODING", "ADVANCED_PREDICTION", "ADVANCED_INTRA_CODING", "DEBLOCKING_FILTER",
                 "SLICE_STRUCTURED", "REFERENCE_PICTURE_SELECTION", "INDEPENDENT_SEGMENT_DECODING", "ALTERNATIVE_INTER_VLC",
                 "MODIFIED_QUANTIZATION", "REFERENCE_PICTURE_RESAMPLING", "REDUCED_RESOLUTION_UPDATE", "ROUNDING_TYPE_ONE",
                 "USE_DEBLOCKER"]
        if sorted(bits) != sorted(order):
            raise Untranslatable("PictureOption flag names changed: %s" % sorted(bits))
        body += "Definition picture_option_bits : list Z := [%s].\n" % "; ".join(str(bits[k]) for k in order)

        def mask(src, name):
            mm = re.search(r"static\s+ref\s+" + name + r"\s*:\s*PictureOption\s*=\s*(.*?);", src, re.S)
            if not mm:
                raise Untranslatable(name + " not found")
            v = 0
            for t in mm.group(1).split("|"):
                t = t.strip()
                if not t.startswith("PictureOption::"):
                    raise Untranslatable("mask term " + t)
                v |= bits[t.split("::")[1]]
            return v
        body += "Definition opptype_options : Z := %d.\n" % mask(ty, "OPPTYPE_OPTIONS")
        body += "Definition mpptype_options : Z := %d.\n" % mask(ty, "MPPTYPE_OPTIONS")
        body += "Definition opptype_options_parser : Z := %d.\n\n" % mask(pic, "OPPTYPE_OPTIONS")
        STATUS["h263.option_masks"] = "ok"
    except Untranslatable as e:
        body += "(* untranslatable: %s *)\nDefinition picture_option_bits : list Z := [].\nDefinition opptype_options : Z := 0.\nDefinition mpptype_options : Z := 0.\nDefinition opptype_options_parser : Z := 0.\n\n" % e
        STATUS["h263.option_masks"] = "untranslatable: %s" % e
    # standard picture sizes and HalfPel range constants
    try:
        sizes = re.findall(r"Self::(\w+)\s*=>\s*Some\(\((\d+),\s*(\d+)\)\)", ty)
        d = dict((a, (int(b), int(c))) for a, b, c in sizes)
        names = ["SubQcif", "QuarterCif", "FullCif", "FourCif", "SixteenCif"]
        if sorted(d) != sorted(names):
            raise Untranslatable("standard sizes %r" % (sizes,))
        body += "Definition standard_sizes : list (Z * Z) := [%s].\n" % "; ".join("(%d, %d)" % d[n] for n in names)
        hp = dict(re.findall(r"pub\s+const\s+(\w+)\s*:\s*Self\s*=\s*Self\((\d+)\)", ty))
        hn = ["STANDARD_RANGE", "EXTENDED_RANGE", "EXTENDED_RANGE_QUADCIF", "EXTENDED_RANGE_SIXTEENCIF", "EXTENDED_RANGE_BEYONDCIF"]
        if sorted(hp) != sorted(hn):
            raise Untranslatable("HalfPel constants %r" % (hp,))
        body += "Definition halfpel_ranges : list Z := [%s].\n" % "; ".join(hp[n] for n in hn)
        STATUS["h263.sizes_and_ranges"] = "ok"
    except Untranslatable as e:
        body += "(* untranslatable: %s *)\nDefinition standard_sizes : list (Z * Z) := [].\nDefinition halfpel_ranges : list Z := [].\n" % e
        STATUS["h263.sizes_and_ranges"] = "untranslatable: %s" % e
    write_if_changed("GenTables.v", body)


# ---------------------------------------------------------------- shared-state inventory (C17)
def strip_tests(src):
    """remove `#[cfg(test)] mod NAME { ... }` blocks and `#[test] fn ... { ... }` items"""
    out = src
    for pat in (r"#\[cfg\(test\)\]\s*(?:pub\s+)?mod\s+\w+\s*\{", r"#\[test\]\s*(?:#\[[^\]]*\]\s*)*fn\s+\w+\s*\([^)]*\)\s*\{",
                r"#\[cfg\(test\)\]\s*(?:#\[[^\]]*\]\s*)*fn\s+\w+\s*\([^)]*\)[^{]*\{"):
        while True:
            m = re.search(pat, out)
            if not m:
                break
            i = m.end()
            depth = 1
            while i < len(out) and depth:
                if out[i] == "{":
                    depth += 1
                elif out[i] == "}":
                    depth -= 1
                i += 1
            out = out[:m.start()] + out[i:]
    return out


def gen_inventory():
    import glob
    files = []
    for crate in ("h263", "yuv", "deblock"):
        files += sorted(glob.glob(os.path.join(REPO, crate, "src", "**", "*.rs"), recursive=True))
    lazy = []
    counts = {"static_mut": 0, "plain_static": 0, "thread_local": 0, "unsafe": 0, "interior_mutability": 0,
              "clock_env_random": 0, "map_iteration": 0}
    for f in files:
        rel = os.path.relpath(f, REPO)
        src = strip_tests(strip_comments(open(f).read()))
        for m in re.finditer(r"lazy_static!\s*\{(.*?)\n\}", src, re.S):
            for n in re.findall(r"static\s+ref\s+(\w+)", m.group(1)):
                lazy.append("%s:%s" % (rel, n))
        no_lazy = re.sub(r"lazy_static!\s*\{.*?\n\}", "", src, flags=re.S)
        counts["static_mut"] += len(re.findall(r"\bstatic\s+mut\b", no_lazy))
        counts["plain_static"] += len(re.findall(r"(?<![\w'])static\s+(?!mut\b)[A-Z_]\w*\s*:", no_lazy))
        counts["thread_local"] += len(re.findall(r"\bthread_local!", no_lazy))
        counts["unsafe"] += len(re.findall(r"\bunsafe\b", no_lazy))
        counts["interior_mutability"] += len(re.findall(r"\b(?:Cell|RefCell|UnsafeCell|OnceCell|OnceLock|Mutex|RwLock|Atomic\w+)\b", no_lazy))
        counts["clock_env_random"] += len(re.findall(r"\b(?:SystemTime|Instant|std::env|env::var|rand::|RandomState)\b", no_lazy))
        counts["map_iteration"] += len(re.findall(r"reference_states\s*\.\s*(?:iter|iter_mut|values|values_mut|keys|drain|into_iter|retain)\b", no_lazy))
        counts["map_iteration"] += len(re.findall(r"for\s+[^;{]*\bin\s+&?(?:mut\s+)?self\.reference_states\b", no_lazy))
    body = "(* GENERATED by tools/rs2v.py from every non-test source file of the three crates -- do not edit. *)\nFrom Coq Require Import String List ZArith.\nImport ListNotations.\nOpen Scope string_scope.\n\n"
    body += "Definition lazy_static_items : list string :=\n  [%s].\n\n" % ";\n   ".join('"%s"' % x for x in sorted(lazy))
    body += "Definition forbidden_construct_counts : list (string * Z) :=\n  [%s].\n" % ";\n   ".join('("%s", %d%%Z)' % (k, counts[k]) for k in sorted(counts))
    write_if_changed("GenInventory.v", body)
    STATUS["inventory"] = "ok"


def gen_kernels():
    """kernels translated from Rust source by the expression translator (tools/rs2v_kernels.py)"""
    sys.path.insert(0, HERE)
    import rs2v_kernels
    rs2v_kernels.gen_kernels(REPO, STATUS, write_if_changed)


def gen_parser():
    """picture-header field decoders translated from Rust source (tools/rs2v_parser.py)"""
    sys.path.insert(0, HERE)
    import rs2v_parser
    rs2v_parser.gen_parser(REPO, STATUS, write_if_changed)


GENERATORS = [gen_deblock, gen_yuv, gen_tables, gen_inventory, gen_kernels, gen_parser]


def main():
    os.makedirs(GEN, exist_ok=True)
    for g in GENERATORS:
        try:
            g()
        except Exception as e:  # a crash of the translator is a broken tie, not a crash of the check
            STATUS[g.__name__] = "translator-error: %r" % (e,)
    with open(os.path.join(GEN, "STATUS.json"), "w") as f:
        json.dump(STATUS, f, indent=1, sort_keys=True)
    for k in sorted(STATUS):
        print(k, STATUS[k])


if __name__ == "__main__":
    main()
