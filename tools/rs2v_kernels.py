#!/usr/bin/env python3
"""rs2v_kernels: translate the small pure kernels of the three crates from Rust *source* into Gallina
(checked-integer monad of base/Prelude.v + base/Checked.v), one generated file per group:

    coq/gen/GenKDeblock.v   up_down_ramp, clipd1, process; the lane functions of simd_impl and process_simd (one lane)
    coq/gen/GenKYuv.v       yuv_to_rgba_4x as four lanes -> 16 bytes
    coq/gen/GenKRecon.v     HalfPel::{into_lerp_parameters, invert, is_mv_within_range, is_predictor_within_range,
                            average_sum_of_mvs, median_of, add}, IntraDc::{from_u8, into_level}, lerp, read_sample's
                            coordinate clamp, the dequantisation lets of inverse_rle, the quantizer update of
                            decode_next_picture, the four-sample average and the block_cols clamp of gather_block

Each definition is proved equal to the hand-written model's (coq/bridge/BridgeK*.v) for all arguments in range: a
change of the source changes the generated term and the bridge must be re-proved by Coq on that run.

The translator is a recursive-descent parser for a subset of Rust expressions and statements (see `Parser`) and a
type-directed emitter (`Emitter`): every integer operation that Rust checks under overflow checks becomes a checked
operation of Checked.v that can return `Panic`; `as` casts that can lose information become `wrap`; SIMD lane types
(`i16x8`, `i32x4` of the `wide` crate) are translated lane-wise with wrapping arithmetic.
Anything outside the subset raises Untranslatable and is reported in STATUS.json (`kernel.<name>`), and the
definition is omitted, so the bridge lemma that names it no longer compiles.
"""
import os, re, sys

class Untranslatable(Exception):
    pass


# ------------------------------------------------------------------------------------------------ tokenizer
TOK = re.compile(r"""
 (?P<ws>\s+)
|(?P<num>0x[0-9a-fA-F_]+|0b[01_]+|\d[\d_]*(?:\.\d[\d_]*)?)(?P<suf>_?(?:[iu](?:8|16|32|64|128|size)|f32|f64))?
|(?P<id>(?:r\#)?[A-Za-z_][A-Za-z0-9_]*)
|(?P<str>"(?:[^"\\]|\\.)*")
|(?P<op>\.\.=|\.\.|::|->|=>|==|!=|<=|>=|&&|\|\||<<=|>>=|<<|>>|\+=|-=|\*=|/=|%=|&=|\|=|\^=|[-+*/%&|^!<>=.,;:()\[\]{}\#?'])
""", re.X)


def strip_comments(src):
    out, i, n = [], 0, len(src)
    while i < n:
        if src.startswith("//", i):
            j = src.find("\n", i)
            i = n if j < 0 else j
        elif src.startswith("/*", i):
            depth, i = 1, i + 2
            while i < n and depth:
                if src.startswith("/*", i):
                    depth, i = depth + 1, i + 2
                elif src.startswith("*/", i):
                    depth, i = depth - 1, i + 2
                else:
                    i += 1
        elif src[i] == '"':
            j = i + 1
            while j < n and src[j] != '"':
                j += 2 if src[j] == "\\" else 1
            out.append(src[i:j + 1])
            i = j + 1
        else:
            out.append(src[i])
            i += 1
    return "".join(out)


def tokenize(s):
    toks, i = [], 0
    while i < len(s):
        m = TOK.match(s, i)
        if not m:
            raise Untranslatable("cannot tokenize at: %r" % s[i:i + 30])
        i = m.end()
        if m.group("ws") is not None:
            continue
        if m.group("num") is not None:
            toks.append(("num", m.group("num"), (m.group("suf") or "").lstrip("_")))
        elif m.group("id") is not None:
            name = m.group("id")
            toks.append(("id", name[2:] + "_" if name.startswith("r#") else name))
        elif m.group("str") is not None:
            toks.append(("str", m.group("str")))
        else:
            toks.append(("op", m.group("op")))
    return toks


# ------------------------------------------------------------------------------------------------ parser
BINPREC = {"*": 11, "/": 11, "%": 11, "+": 10, "-": 10, "<<": 9, ">>": 9, "&": 8, "^": 7, "|": 6,
           "==": 5, "!=": 5, "<": 5, ">": 5, "<=": 5, ">=": 5, "&&": 4, "||": 3, "..": 2, "..=": 2}
AS_PREC = 12
KNOWN_MACROS = {"debug_assert", "assert", "unreachable", "matches", "debug_assert_eq", "assert_eq", "panic", "vec"}


class Parser:
    def __init__(self, toks):
        self.t, self.i = toks, 0
        self.no_struct = 0

    def peek(self, k=0):
        return self.t[self.i + k] if self.i + k < len(self.t) else ("eof", "")

    def at(self, *ops):
        p = self.peek()
        return p[0] == "op" and p[1] in ops

    def at_id(self, name=None):
        p = self.peek()
        return p[0] == "id" and (name is None or p[1] == name)

    def next(self):
        p = self.peek()
        self.i += 1
        return p

    def expect(self, op):
        p = self.next()
        if p[0] != "op" or p[1] != op:
            raise Untranslatable("expected %r, found %r" % (op, p[1] if len(p) > 1 else p))

    def expect_id(self):
        p = self.next()
        if p[0] != "id":
            raise Untranslatable("expected identifier, found %r" % (p,))
        return p[1]

    # ---- types
    def ty(self):
        if self.at("&"):
            self.next()
            if self.at("'"):
                self.next(); self.expect_id()
            mut = False
            if self.at_id("mut"):
                self.next(); mut = True
            return ("ref", mut, self.ty())
        if self.at("&&"):
            self.next()
            return ("ref", False, ("ref", False, self.ty()))
        if self.at("("):
            self.next()
            items = []
            while not self.at(")"):
                items.append(self.ty())
                if self.at(","):
                    self.next()
            self.expect(")")
            return ("tup", items) if len(items) != 1 else items[0]
        if self.at("["):
            self.next()
            el = self.ty()
            n = None
            if self.at(";"):
                self.next()
                n = self.expr()
            self.expect("]")
            return ("arr", el, n)
        name = self.expect_id()
        while self.at("::"):
            self.next()
            nxt = self.expect_id()
            # `Self::Output` of the operator impls translated here is `Self`
            name = "Self" if (name == "Self" and nxt == "Output") else nxt
        if self.at("<"):
            self.next()
            args = []
            while not self.at(">") and not self.at(">>"):
                args.append(self.ty())
                if self.at(","):
                    self.next()
            if self.at(">>"):
                self.t = list(self.t)
                self.t[self.i] = ("op", ">")       # `>>` closes two generic argument lists
            else:
                self.expect(">")
            return ("gen", name, args)
        return name

    # ---- patterns
    def pattern(self):
        alts = [self.pattern1()]
        while self.at("|"):
            self.next()
            alts.append(self.pattern1())
        return alts[0] if len(alts) == 1 else ("por", alts)

    def pattern1(self):
        if self.at("("):
            self.next()
            items = []
            while not self.at(")"):
                items.append(self.pattern())
                if self.at(","):
                    self.next()
            self.expect(")")
            return ("ptuple", items)
        if self.at("-") or self.peek()[0] == "num":
            lo = self.lit_signed()
            if self.at("..="):
                self.next()
                return ("prange", lo, self.pat_bound())
            return ("plit", lo)
        if self.at("&"):
            self.next()
            return self.pattern1()
        if self.at("["):
            self.next()
            items = []
            while not self.at("]"):
                items.append(self.pattern())
                if self.at(","):
                    self.next()
            self.expect("]")
            return ("parray", items)
        name = self.expect_id()
        if name == "_":
            return ("pwild",)
        if name in ("mut", "ref"):
            if self.at_id("mut"):
                self.next()
            return ("pid", self.expect_id())
        if name in ("true", "false"):
            return ("pbool", name == "true")
        segs = [name]
        while self.at("::"):
            self.next()
            segs.append(self.expect_id())
        if self.at("("):
            self.next()
            items = []
            while not self.at(")"):
                items.append(self.pattern())
                if self.at(","):
                    self.next()
            self.expect(")")
            return ("pctor", segs, items)
        if self.at("{") and segs[-1][0].isupper() and self.struct_ahead():
            self.next()
            fields = []
            while not self.at("}"):
                if self.at(".."):
                    self.next()
                    fields.append(("..", None))
                    continue
                fn = self.expect_id()
                if self.at(":"):
                    self.next()
                    fields.append((fn, self.pattern()))
                else:
                    fields.append((fn, ("pid", fn)))
                if self.at(","):
                    self.next()
            self.expect("}")
            return ("pstruct", segs, fields)
        if len(segs) > 1 or segs[0][0].isupper():
            return ("ppath", segs)
        return ("pid", name)

    def pat_bound(self):
        if self.at("-") or self.peek()[0] == "num":
            return self.lit_signed()
        segs = [self.expect_id()]
        while self.at("::"):
            self.next()
            segs.append(self.expect_id())
        return ("path", segs)

    def lit_signed(self):
        neg = False
        if self.at("-"):
            self.next(); neg = True
        p = self.next()
        if p[0] != "num":
            raise Untranslatable("literal expected in pattern")
        v = parse_int(p[1])
        return -v if neg else v

    # ---- expressions
    def expr(self, minprec=0):
        lhs = self.unary()
        while True:
            p = self.peek()
            if p[0] == "id" and p[1] == "as" and AS_PREC > minprec:
                self.next()
                lhs = ("cast", lhs, self.ty())
                continue
            if p[0] == "op" and p[1] in BINPREC and BINPREC[p[1]] > minprec:
                op = self.next()[1]
                if op in ("..", "..="):
                    if self.peek()[0] == "op" and self.peek()[1] in ("]", ")", ",", ";", "{"):
                        lhs = ("range", lhs, None, False)      # `a..`
                        continue
                    rhs = self.expr(BINPREC[op])
                    lhs = ("range", lhs, rhs, op == "..=")
                else:
                    rhs = self.expr(BINPREC[op])
                    lhs = ("bin", op, lhs, rhs)
                continue
            return lhs

    def unary(self):
        if self.at("-"):
            self.next()
            return ("un", "-", self.unary_cast())
        if self.at("!"):
            self.next()
            return ("un", "!", self.unary_cast())
        if self.at("*"):
            self.next()
            return ("un", "*", self.unary_cast())
        if self.at("&"):
            self.next()
            if self.at_id("mut"):
                self.next()
            return ("ref", self.unary_cast())
        return self.postfix(self.primary())

    def unary_cast(self):
        # operand of a unary operator: binds tighter than `as`
        return self.unary()

    def args(self, close=")"):
        items = []
        while not self.at(close):
            items.append(self.expr())
            if self.at(","):
                self.next()
        self.expect(close)
        return items

    def postfix(self, e):
        while True:
            if self.at("."):
                self.next()
                p = self.next()
                if p[0] == "num":
                    e = ("field", e, p[1])
                elif p[0] == "id":
                    fish = None
                    if self.at("::"):      # turbofish
                        self.next(); self.expect("<")
                        fish = []
                        while not self.at(">"):
                            fish.append(self.ty())
                            if self.at(","):
                                self.next()
                        self.expect(">")
                    if self.at("("):
                        self.next()
                        e = ("mcall", e, p[1], self.args()) if fish is None else ("mcall", e, p[1], self.args(), fish)
                    else:
                        e = ("field", e, p[1])
                else:
                    raise Untranslatable("bad field access")
            elif self.at("("):
                self.next()
                e = ("call", e, self.args())
            elif self.at("["):
                self.next()
                if self.at("..") and self.peek(1) == ("op", "]"):
                    self.next()
                    idx = ("range", None, None, False)
                else:
                    idx = self.expr()
                self.expect("]")
                e = ("index", e, idx)
            elif self.at("?"):
                self.next()
                e = ("try", e)
            else:
                return e

    def primary(self):
        p = self.peek()
        if p[0] == "num":
            self.next()
            if "." in p[1] or p[2] in ("f32", "f64"):
                return ("float", p[1])
            return ("int", parse_int(p[1]), p[2] or None)
        if self.at("("):
            self.next()
            items = []
            trailing = False
            while not self.at(")"):
                items.append(self.expr())
                trailing = False
                if self.at(","):
                    self.next(); trailing = True
            self.expect(")")
            if len(items) == 1 and not trailing:
                return ("paren", items[0])
            return ("tuple", items)
        if self.at("["):
            self.next()
            if self.at("]"):
                self.next()
                return ("array", [])
            first = self.expr()
            if self.at(";"):
                self.next()
                n = self.expr()
                self.expect("]")
                return ("arrayrep", first, n)
            items = [first]
            if self.at(","):
                self.next()
            return ("array", items + self.args("]"))
        if self.at("{"):
            return self.block()
        if self.at("|") or self.at("||"):
            # closure |a, b| expr
            params = []
            if self.at("||"):
                self.next()
            else:
                self.next()
                while not self.at("|"):
                    params.append(self.pattern1())
                    if self.at(","):
                        self.next()
                self.expect("|")
            return ("closure", params, self.expr())
        if p[0] == "id":
            name = p[1]
            if name == "if":
                return self.if_expr()
            if name == "match":
                return self.match_expr()
            if name == "return":
                self.next()
                if self.at(";") or self.at("}"):
                    return ("return", None)
                return ("return", self.expr())
            if name in ("true", "false"):
                self.next()
                return ("bool", name == "true")
            if name == "for":
                self.next()
                pat = self.pattern1()
                if not self.at_id("in"):
                    raise Untranslatable("for without in")
                self.next()
                it = self.expr()
                return ("for", pat, it, self.block())
            if name == "loop":
                self.next()
                return ("loop", self.block())
            if name == "break":
                self.next()
                return ("break",)
            if name == "continue":
                self.next()
                return ("continue",)
            if name == "while":
                self.next()
                self.no_struct += 1
                c = self.expr()
                self.no_struct -= 1
                return ("while", c, self.block())
            self.next()
            if self.at("!") and self.peek(1)[0] == "op" and self.peek(1)[1] in ("[", "{") and name != "matches":
                # a macro with bracket or brace delimiters: vec![elem; n] / vec![a, b] is read as the array expression it wraps,
                # anything else is skipped as a whole
                self.next()
                if name == "vec" and self.at("["):
                    save = self.i
                    try:
                        inner = self.expr()
                        if inner[0] in ("array", "arrayrep"):
                            return ("macro", "vec", [inner])
                    except Untranslatable:
                        pass
                    self.i = save
                opener = self.next()[1]
                closer = {"[": "]", "{": "}"}[opener]
                depth = 1
                while depth:
                    q = self.next()
                    if q[0] == "eof":
                        raise Untranslatable("unterminated macro")
                    if q[0] == "op" and q[1] == opener:
                        depth += 1
                    elif q[0] == "op" and q[1] == closer:
                        depth -= 1
                return ("macro", name, [])
            if self.at("!") and self.peek(1)[0] == "op" and self.peek(1)[1] == "(" and (name in KNOWN_MACROS or name[0].islower()):
                self.next(); self.next()
                if name == "matches":
                    saved, self.no_struct = self.no_struct, 0
                    subject = self.expr()
                    self.expect(",")
                    pat = self.pattern()
                    guard = None
                    if self.at_id("if"):
                        self.next()
                        guard = self.expr()
                    if self.at(","):
                        self.next()
                    self.expect(")")
                    self.no_struct = saved
                    return ("matches", subject, pat, guard)
                start = self.i
                try:
                    return ("macro", name, self.args())
                except Untranslatable:
                    # arguments outside the expression subset (vec![x; n], format strings): skipped as a whole
                    self.i = start
                    depth = 1
                    while depth:
                        q = self.next()
                        if q[0] == "eof":
                            raise Untranslatable("unterminated macro")
                        if q[0] == "op" and q[1] == "(":
                            depth += 1
                        elif q[0] == "op" and q[1] == ")":
                            depth -= 1
                    return ("macro", name, [])
            segs = [name]
            while self.at("::"):
                self.next()
                if self.at("<"):
                    self.next()
                    depth = 1
                    while depth:
                        q = self.next()
                        if q[0] == "op" and q[1] == "<":
                            depth += 1
                        elif q[0] == "op" and q[1] == ">":
                            depth -= 1
                        elif q[0] == "op" and q[1] == ">>":
                            depth -= 2
                        elif q[0] == "eof":
                            raise Untranslatable("unterminated generic arguments")
                    continue
                segs.append(self.expect_id())
            if self.at("{") and not self.no_struct and segs[-1][0].isupper() and self.struct_ahead():
                self.next()
                fields = []
                while not self.at("}"):
                    fn = self.expect_id()
                    if self.at(":"):
                        self.next()
                        fields.append((fn, self.expr()))
                    else:
                        fields.append((fn, ("var", fn)))
                    if self.at(","):
                        self.next()
                self.expect("}")
                return ("struct", segs, fields)
            return ("var", name) if len(segs) == 1 else ("path", segs)
        raise Untranslatable("unexpected token %r" % (p,))

    def struct_ahead(self):
        a, b = self.peek(1), self.peek(2)
        if a[0] == "op" and a[1] == "}":
            return True
        return a[0] == "id" and b[0] == "op" and b[1] in (":", ",", "}")

    def if_expr(self):
        self.next()
        if self.at_id("let"):
            self.next()
            pat = self.pattern()
            self.expect("=")
            self.no_struct += 1
            subject = self.expr()
            self.no_struct -= 1
            thn = self.block()
            els = None
            if self.at_id("else"):
                self.next()
                els = self.if_expr() if self.at_id("if") else self.block()
            return ("iflet", pat, subject, thn, els)
        self.no_struct += 1
        c = self.expr()
        self.no_struct -= 1
        thn = self.block()
        els = None
        if self.at_id("else"):
            self.next()
            els = self.if_expr() if self.at_id("if") else self.block()
        return ("if", c, thn, els)

    def match_expr(self):
        self.next()
        self.no_struct += 1
        scrut = self.expr()
        self.no_struct -= 1
        self.expect("{")
        arms = []
        while not self.at("}"):
            pat = self.pattern()
            guard = None
            if self.at_id("if"):
                self.next()
                guard = self.expr()
            self.expect("=>")
            # a block as arm body ends the arm: `=> { .. } (a, b) => ..` is not a call of the block
            body = self.block() if self.at("{") else self.expr()
            if self.at(","):
                self.next()
            arms.append((pat, guard, body))
        self.expect("}")
        return ("match", scrut, arms)

    def attrs(self):
        out = []
        while self.at("#"):
            self.next()
            self.expect("[")
            depth, toks = 1, []
            while depth:
                q = self.next()
                if q[0] == "eof":
                    raise Untranslatable("unterminated attribute")
                if q[0] == "op" and q[1] == "[":
                    depth += 1
                elif q[0] == "op" and q[1] == "]":
                    depth -= 1
                    if depth == 0:
                        break
                toks.append(q[1])
            out.append(" ".join(toks))
        return out

    def stmt(self):
        """returns (stmt, is_tail_expression)"""
        attrs = self.attrs()
        if self.at_id("let"):
            self.next()
            pat = self.pattern()
            ty = None
            if self.at(":"):
                self.next()
                ty = self.ty()
            self.expect("=")
            e = self.expr()
            self.expect(";")
            return ("let", pat, ty, e, attrs), False
        e = self.expr()
        if self.peek()[0] == "op" and self.peek()[1] in ("=", "+=", "-=", "*=", "/=", "%=", "&=", "|=", "^=", "<<=", ">>="):
            op = self.next()[1]
            rhs = self.expr()
            if not self.at("}"):          # an assignment may be the last thing in a block, without `;`
                self.expect(";")
            return ("assign", e, op, rhs), False
        if self.at(";"):
            self.next()
            return ("expr", e), False
        if self.at("}"):
            return ("expr", e), True
        if e[0] in ("if", "iflet", "match", "block", "for", "loop", "while"):
            return ("expr", e), False
        raise Untranslatable("expected `;` or `}` after expression, found %r" % (self.peek(),))

    def block(self):
        self.expect("{")
        saved, self.no_struct = self.no_struct, 0
        try:
            return self.block_body()
        finally:
            self.no_struct = saved

    def block_body(self):
        stmts, tail = [], None
        while not self.at("}"):
            s, is_tail = self.stmt()
            if is_tail:
                tail = s[1]
            else:
                stmts.append(s)
        self.expect("}")
        # an if/match in last position without `;` is the tail expression
        if tail is None and stmts and stmts[-1][0] == "expr" and stmts[-1][1][0] in ("if", "iflet", "match", "block"):
            tail = stmts.pop()[1]
        return ("block", stmts, tail)


def parse_int(s):
    s = s.replace("_", "")
    if s.startswith("0x"):
        return int(s[2:], 16)
    if s.startswith("0b"):
        return int(s[2:], 2)
    return int(s)


# ------------------------------------------------------------------------------------------------ source navigation
def match_brace(toks, i):
    """toks[i] is `{`; returns index just after the matching `}`."""
    depth = 0
    while i < len(toks):
        t = toks[i]
        if t[0] == "op" and t[1] == "{":
            depth += 1
        elif t[0] == "op" and t[1] == "}":
            depth -= 1
            if depth == 0:
                return i + 1
        i += 1
    raise Untranslatable("unbalanced braces")


def find_scope(toks, scope):
    """scope = e.g. 'mod scalar_impl', 'impl HalfPel', 'impl Add<HalfPel> for HalfPel'; returns token slice of its body."""
    want = [x[1] for x in tokenize(scope)]
    n = len(want)
    for i in range(len(toks) - n):
        if [t[1] for t in toks[i:i + n]] == want and toks[i + n][0] == "op" and toks[i + n][1] == "{":
            return toks[i + n + 1: match_brace(toks, i + n) - 1]
    raise Untranslatable("scope `%s` not found" % scope)


def find_fn(toks, name):
    """returns (params, ret_type, body_ast)"""
    hits = []
    for i in range(len(toks) - 2):
        if toks[i] == ("id", "fn") and toks[i + 1] == ("id", name):
            hits.append(i)
    if not hits:
        raise Untranslatable("fn `%s` not found" % name)
    if len(hits) > 1:
        raise Untranslatable("fn `%s` found %d times in its scope" % (name, len(hits)))
    p = Parser(toks)
    p.i = hits[0] + 2
    if p.at("<"):
        raise Untranslatable("generic function")
    p.expect("(")
    params = []
    while not p.at(")"):
        if p.at("&"):
            p.next()
            if p.at_id("mut"):
                p.next()
            if not p.at_id("self"):
                raise Untranslatable("bad self parameter")
            p.next()
            params.append(("self", ("ref", False, "Self")))
        elif p.at_id("self"):
            p.next()
            params.append(("self", "Self"))
        elif p.at_id("mut"):
            p.next()
            nm = p.expect_id(); p.expect(":")
            params.append((nm, p.ty()))
        else:
            nm = p.expect_id(); p.expect(":")
            params.append((nm, p.ty()))
        if p.at(","):
            p.next()
    p.expect(")")
    ret = None
    if p.at("->"):
        p.next()
        ret = p.ty()
    body = p.block()
    return params, ret, body


def match_bracket(toks, i):
    """index of the `]` matching the `[` at i, or None"""
    depth = 0
    for j in range(i, len(toks)):
        if toks[j] == ("op", "["):
            depth += 1
        elif toks[j] == ("op", "]"):
            depth -= 1
            if depth == 0:
                return j
    return None


def find_stmt_tokens(toks, kind, name, start=0):
    """kind 'let': `let [mut] NAME ... ;`  kind 'assign': `NAME = ... ;` at statement start.  Returns (tokens, end)."""
    i = start
    while i < len(toks) - 2:
        ok = False
        if kind == "let" and toks[i] == ("id", "let"):
            j = i + 1
            if toks[j] == ("id", "mut"):
                j += 1
            ok = toks[j] == ("id", name)
        elif kind == "assign" and toks[i] == ("id", name) and toks[i + 1] == ("op", "=") and i > 0 \
                and toks[i - 1][0] == "op" and toks[i - 1][1] in (";", "{", "}"):
            ok = True
        if ok:
            depth, j = 0, i
            while j < len(toks):
                t = toks[j]
                if t[0] == "op" and t[1] in "([{":
                    depth += 1
                elif t[0] == "op" and t[1] in ")]}":
                    depth -= 1
                elif t[0] == "op" and t[1] == ";" and depth == 0:
                    return toks[i:j + 1], j + 1
                j += 1
            raise Untranslatable("unterminated statement for `%s`" % name)
        i += 1
    raise Untranslatable("%s `%s` not found" % (kind, name))


# ------------------------------------------------------------------------------------------------ types
INTS = {"u8": (0, 2 ** 8 - 1), "i8": (-2 ** 7, 2 ** 7 - 1), "u16": (0, 2 ** 16 - 1), "i16": (-2 ** 15, 2 ** 15 - 1),
        "u32": (0, 2 ** 32 - 1), "i32": (-2 ** 31, 2 ** 31 - 1), "u64": (0, 2 ** 64 - 1), "i64": (-2 ** 63, 2 ** 63 - 1),
        "usize": (0, 2 ** 64 - 1), "isize": (-2 ** 63, 2 ** 63 - 1)}
COQTY = {"u8": "U8", "i8": "I8", "u16": "U16", "i16": "I16", "u32": "U32", "i32": "I32", "u64": "U64", "i64": "I64",
         "usize": "Usize", "isize": "Isize"}
LANES = {"i16x8": "i16", "i32x4": "i32"}
NEWTYPES = {"HalfPel": "i16", "IntraDc": "u8"}


def is_int(t):
    return isinstance(t, str) and t in INTS


def is_newtype(t):
    return isinstance(t, str) and t in NEWTYPES


def is_lane(t):
    return isinstance(t, tuple) and t[0] == "lane"


def norm_ty(t, self_ty=None):
    """source type AST -> emitter type"""
    if isinstance(t, str):
        if t == "Self":
            if self_ty is None:
                raise Untranslatable("Self outside impl")
            return self_ty
        if t in INTS or t == "bool" or t in NEWTYPES:
            return t
        if t in LANES:
            return ("lane", LANES[t])
        raise Untranslatable("type `%s`" % t)
    if t[0] == "ref":
        inner = norm_ty(t[2], self_ty)
        return ("mutref", inner) if t[1] else inner
    if t[0] == "tup":
        return ("tup", [norm_ty(x, self_ty) for x in t[1]])
    if t[0] == "gen" and t[1] == "Option":
        return ("opt", norm_ty(t[2][0], self_ty))
    if t[0] == "arr":
        return ("arr", norm_ty(t[1], self_ty))
    raise Untranslatable("type %r" % (t,))


def strip_mutref(t):
    return t[1] if isinstance(t, tuple) and t[0] == "mutref" else t


def coq_type(t):
    if is_int(t) or is_newtype(t) or is_lane(t):
        return "Z"
    if t == "bool":
        return "bool"
    if t == "unit":
        return "unit"
    if t == "bytes4":
        return "(list Z)"
    if t[0] == "arr":
        return "(Z -> Z)"
    if t[0] == "tup":
        return "(" + " * ".join(coq_type(x) for x in t[1]) + ")"
    if t[0] == "opt":
        return "(option %s)" % coq_type(t[1])
    if t[0] == "mutref":
        return coq_type(t[1])
    raise Untranslatable("no Coq type for %r" % (t,))


def zlit(n):
    return str(n) if n >= 0 else "(%d)" % n


def mentions_len(e):
    if isinstance(e, tuple):
        if e and e[0] == "mcall" and e[2] == "len":
            return True
        return any(mentions_len(x) for x in e)
    if isinstance(e, list):
        return any(mentions_len(x) for x in e)
    return False


# ------------------------------------------------------------------------------------------------ emitter
class Emitter:
    """Translates one function body.  Expressions yield (atom, type); checked operations append monadic bindings to the
    current prelude (`self.pre`, a list of lines `let* t := ... in` / `let x := ... in`)."""

    def __init__(self, known_fns, self_ty=None, lane=None, field_vars=None):
        self.known = known_fns          # rust name -> (coq name, [param types], ret type, is_method_of)
        self.self_ty = self_ty
        self.lane = lane                # lane index for `T::from([..])` and arrays
        self.field_vars = field_vars or {}
        self.pre = []
        self.n = 0
        self.env = {}                   # rust var -> (coq atom, type)
        self.uses_lane = False
        self.notes = []

    def fresh(self, base="t"):
        self.n += 1
        return "%s%d" % (base, self.n)

    def bind(self, code, base="t"):
        v = self.fresh(base)
        self.pre.append("let* %s := %s in" % (v, code))
        return v

    # ---- helpers
    def chk_bin(self, fn, ty, a, b):
        return self.bind("%s %s %s %s" % (fn, COQTY[ty], a, b))

    def int_lit(self, v, ty):
        if ty is not None and is_int(ty):
            lo, hi = INTS[ty]
            if not (lo <= v <= hi):
                raise Untranslatable("literal %d out of range of %s" % (v, ty))
        return zlit(v)

    def src_text(self, e):
        if e[0] == "var":
            return e[1]
        if e[0] == "field":
            return self.src_text(e[1]) + "." + e[2]
        if e[0] == "un" and e[1] == "*":
            return self.src_text(e[2])
        if e[0] == "paren":
            return self.src_text(e[1])
        return None

    def unify(self, ta, tb, what):
        if ta == tb:
            return ta
        if ta is None:
            return tb
        if tb is None:
            return ta
        raise Untranslatable("type mismatch in %s: %r vs %r" % (what, ta, tb))

    def is_literal(self, e):
        while e[0] == "paren":
            e = e[1]
        if e[0] == "int" and e[2] is None:
            return True
        if e[0] == "un" and e[1] == "-":
            return self.is_literal(e[2])
        if e[0] == "var" and e[1] in getattr(self, "flex", ()):
            return True
        return False

    def literal_valued(self, e):
        """an expression whose value is always one of a few unsuffixed integer literals (Rust infers its type from its use)"""
        while e[0] == "paren":
            e = e[1]
        if e[0] == "int" and e[2] is None:
            return abs(e[1]) < 128
        if e[0] == "if" and e[3] is not None:
            return self.literal_valued(e[2]) and self.literal_valued(e[3])
        if e[0] == "block" and not e[1] and e[2] is not None:
            return self.literal_valued(e[2])
        if e[0] == "match":
            return all(self.literal_valued(b) for _, _, b in e[2])
        return False

    def underlying(self, t):
        return NEWTYPES.get(t, t) if isinstance(t, str) else t

    # ---- expressions: returns (atom, type)
    def ex(self, e, want=None):
        k = e[0]
        if k == "paren":
            return self.ex(e[1], want)
        if k == "int":
            ty = e[2] or (want if (is_int(want) or is_lane(want)) else None) or "i32"
            if is_lane(ty):
                return self.int_lit(e[1], ty[1]), ty
            return self.int_lit(e[1], ty), ty
        if k == "bool":
            return ("true" if e[1] else "false"), "bool"
        if k == "float":
            if re.match(r"^\d+\.0$", e[1]):
                return "(f_of_Z %s)" % e[1][:-2], "f32"
            raise Untranslatable("floating-point literal %s" % e[1])
        if k == "var":
            if e[1] in self.env:
                if e[1] in getattr(self, "flex", ()) and is_int(want):
                    return self.env[e[1]][0], want        # a local holding only unsuffixed literals takes the type its use demands
                return self.env[e[1]]
            if e[1] == "None" and isinstance(want, tuple) and want[0] == "opt":
                return "None", want
            raise Untranslatable("unknown variable `%s`" % e[1])
        if k == "field":
            txt = self.src_text(e)
            if txt in self.field_vars:
                return self.field_vars[txt]
            a, t = self.ex(e[1])
            if isinstance(t, str) and t in NEWTYPES and e[2] == "0":
                return a, NEWTYPES[t]
            if isinstance(t, tuple) and t[0] == "tup" and e[2].isdigit():
                idx = int(e[2])
                return self.proj(a, idx, len(t[1])), t[1][idx]
            raise Untranslatable("field access .%s on %r" % (e[2], t))
        if k == "un":
            return self.unary(e, want)
        if k == "ref":
            return self.ex(e[1], want)
        if k == "cast":
            return self.cast(e, want)
        if k == "bin":
            return self.binary(e, want)
        if k == "mcall":
            return self.mcall(e, want)
        if k == "call":
            return self.call(e, want)
        if k == "path":
            return self.path(e, want)
        if k == "tuple":
            items = [self.ex(x, (want[1][i] if isinstance(want, tuple) and want[0] == "tup" and i < len(want[1]) else None))
                     for i, x in enumerate(e[1])]
            return "(" + ", ".join(a for a, _ in items) + ")", ("tup", [t for _, t in items])
        if k == "if":
            return self.if_ex(e, want)
        if k == "match":
            return self.match_ex(e, want)
        if k == "block":
            return self.sub_block_value(e, want)
        if k == "index":
            txt = None
            if e[1][0] == "var" and e[2][0] == "int":
                txt = "%s[%d]" % (e[1][1], e[2][1])
            if txt is not None and txt in self.field_vars:
                return self.field_vars[txt]
            if self.lane is not None:
                base, tb = self.ex(e[1])
                tb = strip_mutref(tb)
                if e[2][0] == "var" and self.env.get(e[2][1], (None, None))[1] == "laneidx":
                    if is_lane(tb):
                        return base, tb[1]            # element `lane` of a lane vector
                    if isinstance(tb, tuple) and tb[0] == "arr":
                        return "(%s %s)" % (base, self.lane), tb[1]
                if e[2][0] == "int" and isinstance(tb, tuple) and tb[0] == "arr":
                    return "(%s %d)" % (base, e[2][1]), tb[1]
            raise Untranslatable("indexing")
        if k == "macro":
            if e[1] == "unreachable":
                self.pre.append("let* _ := (Panic PAssert : res unit) in")
                return self.default_of(want), want
            if e[1] == "matches":
                raise Untranslatable("matches!")
            raise Untranslatable("macro %s! in expression position" % e[1])
        if k == "return":
            raise Untranslatable("`return` in expression position")
        raise Untranslatable("expression kind %s" % k)

    def default_of(self, t):
        if t is None:
            raise Untranslatable("unreachable!() where the type is not known")
        if t == "bool":
            return "false"
        if isinstance(t, tuple) and t[0] == "tup":
            return "(" + ", ".join(self.default_of(x) for x in t[1]) + ")"
        return "0"

    def proj(self, a, idx, n):
        # tuples are left-nested pairs in Coq
        s = a
        for _ in range(n - 1 - idx):
            s = "(fst %s)" % s
        return "(snd %s)" % s if idx > 0 else s

    def unary(self, e, want):
        op = e[1]
        if op == "*":
            return self.ex(e[2], want)
        if op == "!":
            a, t = self.ex(e[2], want)
            if t == "bool":
                return "(negb %s)" % a, "bool"
            raise Untranslatable("bitwise not")
        if op == "-":
            if self.is_literal(e[2]):
                inner = e[2]
                while inner[0] == "paren":
                    inner = inner[1]
                if inner[0] == "int":
                    ty = (want if (is_int(want) or is_lane(want)) else None) or "i32"
                    return zlit(-inner[1]), ty
            a, t = self.ex(e[2], want)
            u = self.underlying(t)
            if is_lane(u):
                return "(wrap %s (- %s))" % (COQTY[u[1]], a), t
            if is_int(u):
                return self.bind("neg_c %s %s" % (COQTY[u], a)), t
            raise Untranslatable("negation of %r" % (t,))
        raise Untranslatable("unary %s" % op)

    def cast(self, e, want):
        target = norm_ty(e[2], self.self_ty) if not (isinstance(e[2], str) and e[2] == "f32") else "f32"
        if target == "f32":
            a, t = self.ex(e[1])
            if not is_int(t):
                raise Untranslatable("cast of %r to f32" % (t,))
            return "(f_of_Z %s)" % a, "f32"
        if not is_int(target):
            raise Untranslatable("cast to %r" % (target,))
        inner = e[1]
        if self.is_literal(inner):
            a, t = self.ex(inner, target)
            return a, target
        a, t = self.ex(inner)
        if t == "f32":
            if target == "usize":
                return "(f_to_usize %s)" % a, target
            raise Untranslatable("cast of f32 to %s" % target)
        if t == "bool":
            return "(if %s then 1 else 0)" % a, target
        if is_lane(t):
            # element of a lane vector written back as bytes: handled by the caller through wrap
            t = t[1]
        if not is_int(t):
            raise Untranslatable("cast from %r" % (t,))
        (slo, shi), (tlo, thi) = INTS[t], INTS[target]
        if tlo <= slo and shi <= thi:
            return a, target          # widening: identity on values
        return "(wrap %s %s)" % (COQTY[target], a), target

    def binary(self, e, want):
        op, l, r = e[1], e[2], e[3]
        if op in ("&&", "||"):
            a, ta = self.ex(l, "bool")
            save = self.pre
            self.pre = []
            b, tb = self.ex(r, "bool")
            rp, self.pre = self.pre, save
            if ta != "bool" or tb != "bool":
                raise Untranslatable("logical operator on non-bool")
            if rp:
                # short circuit with a checked right operand
                blk = " ".join(rp) + " Ok %s" % b
                if op == "&&":
                    v = self.bind("(if %s then (%s) else Ok false)" % (a, blk))
                else:
                    v = self.bind("(if %s then Ok true else (%s))" % (a, blk))
                return v, "bool"
            return "(%s %s %s)" % (a, op, b), "bool"
        if op in ("==", "!=", "<", "<=", ">", ">="):
            if self.is_literal(l) and not self.is_literal(r):
                b, tb = self.ex(r)
                a, ta = self.ex(l, self.underlying(tb))
            else:
                a, ta = self.ex(l)
                b, tb = self.ex(r, self.underlying(ta) if not isinstance(ta, tuple) or is_lane(ta) else None)
            ua, ub = self.underlying(ta), self.underlying(tb)
            if ua != ub:
                raise Untranslatable("comparison of %r with %r" % (ta, tb))
            if ua == "bool":
                if op == "==":
                    return "(Bool.eqb %s %s)" % (a, b), "bool"
                if op == "!=":
                    return "(negb (Bool.eqb %s %s))" % (a, b), "bool"
                raise Untranslatable("ordering of bools")
            if not is_int(ua):
                raise Untranslatable("comparison at type %r" % (ta,))
            code = {"==": "(%s =? %s)", "!=": "(negb (%s =? %s))", "<": "(%s <? %s)", "<=": "(%s <=? %s)"}
            if op in code:
                return code[op] % (a, b), "bool"
            if op == ">":
                return "(%s <? %s)" % (b, a), "bool"
            return "(%s <=? %s)" % (b, a), "bool"
        # arithmetic / bitwise / shifts
        if op in ("<<", ">>"):
            a, ta = self.ex(l, want)
            b, tb = self.ex(r, None if not self.is_literal(r) else "u32")
            ua = self.underlying(ta)
            if is_lane(ua):
                if op == ">>":
                    return "(Z.shiftr %s %s)" % (a, b), ta
                return "(wrap %s (Z.shiftl %s %s))" % (COQTY[ua[1]], a, b), ta
            if not is_int(ua):
                raise Untranslatable("shift of %r" % (ta,))
            fn = "shl_c" if op == "<<" else "shr_c"
            return self.chk_bin(fn, ua, a, b), ta
        if self.is_literal(l) and not self.is_literal(r):
            b, tb = self.ex(r, want)
            a, ta = self.ex(l, self.scalar_of(tb))
            ta = tb if is_lane(tb) else ta
        else:
            a, ta = self.ex(l, want)
            b, tb = self.ex(r, self.scalar_of(ta) if self.is_literal(r) else ta)
            if self.is_literal(r) and is_lane(ta):
                tb = ta
        # scalar op lane -> splat
        if is_lane(ta) and is_int(tb) and tb == ta[1]:
            tb = ta
        if is_lane(tb) and is_int(ta) and ta == tb[1]:
            ta = tb
        if ta == "f32" and tb == "f32":
            fn = {"+": "fadd", "*": "fmul", "/": "fdiv"}.get(op)
            if fn is None:
                raise Untranslatable("float operator %s" % op)
            return "(%s %s %s)" % (fn, a, b), "f32"
        if ta != tb:
            raise Untranslatable("operator %s on %r and %r" % (op, ta, tb))
        u = self.underlying(ta)
        if is_newtype(ta):
            raise Untranslatable("operator %s on newtype %s (operator impls are translated separately)" % (op, ta))
        if is_lane(u):
            w = COQTY[u[1]]
            pure = {"+": "(wrap %s (%s + %s))", "-": "(wrap %s (%s - %s))", "*": "(wrap %s (%s * %s))"}
            if op in pure:
                return pure[op] % (w, a, b), ta
            bit = {"&": "Z.land", "|": "Z.lor", "^": "Z.lxor"}
            if op in bit:
                return "(%s %s %s)" % (bit[op], a, b), ta
            raise Untranslatable("lane operator %s" % op)
        if not is_int(u):
            raise Untranslatable("operator %s at type %r" % (op, ta))
        fn = {"+": "add_c", "-": "sub_c", "*": "mul_c", "/": "div_c", "%": "rem_c"}.get(op)
        if fn:
            return self.chk_bin(fn, u, a, b), ta
        bit = {"&": "Z.land", "|": "Z.lor", "^": "Z.lxor"}
        if op in bit:
            return "(%s %s %s)" % (bit[op], a, b), ta
        raise Untranslatable("operator %s" % op)

    def scalar_of(self, t):
        t = self.underlying(t)
        return t[1] if is_lane(t) else t

    def range_contains(self, rng, x):
        while rng[0] == "paren":
            rng = rng[1]
        if rng[0] != "range":
            raise Untranslatable(".contains on a non-range")
        xa, tx = self.ex(x)
        u = self.underlying(tx)
        lo, tl = self.ex(rng[1], u)
        hi, th = self.ex(rng[2], u)
        if self.underlying(tl) != u or self.underlying(th) != u:
            raise Untranslatable("range bounds of another type")
        return "((%s <=? %s) && (%s %s %s))" % (lo, xa, xa, "<=?" if rng[3] else "<?", hi), "bool"

    def mcall(self, e, want):
        recv, name, args = e[1], e[2], e[3]
        if name == "contains" and len(args) == 1:
            return self.range_contains(recv, args[0])
        if name in ("into", "copied", "clone"):
            raise Untranslatable("conversion method .%s()" % name)
        # calls of translated methods (e.g. self.median_of) go through the known table
        a, t = self.ex(recv, want if name in ("abs", "max", "min", "clamp", "signum") else None)
        if t == "f32":
            if name == "ceil" and not args:
                return "(fceil %s)" % a, "f32"
            raise Untranslatable("float method .%s()" % name)
        u = self.underlying(t)
        key = (t if isinstance(t, str) else None, name)
        if key in self.known:
            return self.call_known(self.known[key], [a], args)
        if is_newtype(t):
            raise Untranslatable("method .%s() on %s is not a translated kernel" % (name, t))
        if is_lane(u):
            w = COQTY[u[1]]
            if name == "abs" and not args:
                return "(wrap %s (Z.abs %s))" % (w, a), t
            if name in ("max", "min") and len(args) == 1:
                b, tb = self.ex(args[0], t)
                if tb != t:
                    raise Untranslatable("lane %s with %r" % (name, tb))
                return "(Z.%s %s %s)" % (name, a, b), t
            if name in ("cmp_lt", "cmp_gt", "cmp_eq") and len(args) == 1:
                b, tb = self.ex(args[0], t)
                if tb != t:
                    raise Untranslatable("lane comparison with %r" % (tb,))
                c = {"cmp_lt": "%s <? %s" % (a, b), "cmp_gt": "%s <? %s" % (b, a), "cmp_eq": "%s =? %s" % (a, b)}[name]
                return "(if %s then -1 else 0)" % c, t
            if name == "as_array_ref" and not args:
                return a, t
            if name == "shr" and len(args) == 1:
                b, tb = self.ex(args[0])
                return "(Z.shiftr %s %s)" % (a, b), t
            if name == "shl" and len(args) == 1:
                b, tb = self.ex(args[0])
                return "(wrap %s (Z.shiftl %s %s))" % (w, a, b), t
            raise Untranslatable("lane method .%s()" % name)
        if t == ("opt", u[1] if isinstance(u, tuple) and u[0] == "opt" else None) or (isinstance(u, tuple) and u[0] == "opt"):
            if name == "unwrap_or" and len(args) == 1:
                d, td = self.ex(args[0], u[1])
                return "(match %s with Some v_ => v_ | None => %s end)" % (a, d), u[1]
            raise Untranslatable("Option method .%s()" % name)
        if not is_int(u):
            raise Untranslatable("method .%s() on %r" % (name, t))
        ct = COQTY[u]
        lo, hi = INTS[u]
        if name == "abs" and not args:
            return self.bind("abs_c %s %s" % (ct, a)), t
        if name == "signum" and not args:
            return "(Z.sgn %s)" % a, t
        if name in ("max", "min") and len(args) == 1:
            b, tb = self.ex(args[0], u)
            if self.underlying(tb) != u:
                raise Untranslatable(".%s of %r and %r" % (name, t, tb))
            return "(Z.%s %s %s)" % (name, a, b), t
        if name == "clamp" and len(args) == 2:
            l, tl = self.ex(args[0], u)
            h, th = self.ex(args[1], u)
            if self.underlying(tl) != u or self.underlying(th) != u:
                raise Untranslatable(".clamp bounds of another type")
            if self.is_literal(args[0]) and self.is_literal(args[1]):
                return "(clamp %s %s %s)" % (l, h, a), t
            return self.bind("clamp_c %s %s %s" % (l, h, a)), t
        if name in ("saturating_sub", "saturating_add") and len(args) == 1:
            b, tb = self.ex(args[0], u)
            if self.underlying(tb) != u:
                raise Untranslatable(".%s of %r and %r" % (name, t, tb))
            return "(clamp %s %s (%s %s %s))" % (zlit(lo), zlit(hi), a, "-" if name == "saturating_sub" else "+", b), t
        if name in ("wrapping_add", "wrapping_sub", "wrapping_mul") and len(args) == 1:
            b, tb = self.ex(args[0], u)
            o = {"wrapping_add": "+", "wrapping_sub": "-", "wrapping_mul": "*"}[name]
            return "(wrap %s (%s %s %s))" % (ct, a, o, b), t
        if name == "div_ceil" and len(args) == 1 and lo == 0:
            b, tb = self.ex(args[0], u)
            return self.bind("div_ceil_c %s %s" % (a, b)), t
        if name == "cmp":
            raise Untranslatable(".cmp() outside a match scrutinee")
        if name == "pow":
            raise Untranslatable(".pow()")
        raise Untranslatable("method .%s() on %s" % (name, t))

    def call_known(self, k, first, args):
        cname, ptys, rty, fallible = k
        atoms = list(first)
        for x, pt in zip(args, ptys[len(first):]):
            a, t = self.ex(x, pt if not isinstance(pt, tuple) else None)
            if t != pt and not (is_lane(pt) and t == pt):
                if not (self.underlying(t) == self.underlying(pt)):
                    raise Untranslatable("argument of %s has type %r, expected %r" % (cname, t, pt))
            atoms.append(a)
        if len(ptys) == len(atoms) + 1 and ptys[-1] == "laneidx" and self.lane is not None:
            atoms.append(self.lane)
            self.uses_lane = True
        if len(atoms) != len(ptys):
            raise Untranslatable("arity of %s" % cname)
        code = "%s %s" % (cname, " ".join(atoms))
        if fallible:
            return self.bind(code, "r"), rty
        return "(%s)" % code, rty

    def call(self, e, want):
        f, args = e[1], e[2]
        if f[0] == "var":
            if (None, f[1]) in self.known:
                return self.call_known(self.known[(None, f[1])], [], args)
            if f[1] in ("Self",) + tuple(NEWTYPES) and len(args) == 1:
                nt = self.self_ty if f[1] == "Self" else f[1]
                if nt in NEWTYPES:
                    a, t = self.ex(args[0], NEWTYPES[nt])
                    if t != NEWTYPES[nt]:
                        raise Untranslatable("constructor %s applied to %r" % (nt, t))
                    return a, nt
            if f[1] == "Some" and len(args) == 1:
                a, t = self.ex(args[0], want[1] if isinstance(want, tuple) and want[0] == "opt" else None)
                return "(Some %s)" % a, ("opt", t)
            raise Untranslatable("call of `%s`" % f[1])
        if f[0] == "path":
            segs = f[1]
            if len(segs) == 2 and segs[0] in LANES and segs[1] == "splat" and len(args) == 1:
                a, t = self.ex(args[0], LANES[segs[0]])
                if t != LANES[segs[0]]:
                    raise Untranslatable("splat of %r" % (t,))
                return a, ("lane", LANES[segs[0]])
            if len(segs) == 2 and segs[0] in LANES and segs[1] == "from" and len(args) == 1 and args[0][0] == "array":
                if self.lane is None:
                    raise Untranslatable("lane vector built from an array outside a lane-wise kernel")
                atoms = []
                for it in args[0][1]:
                    a, t = self.ex(it, LANES[segs[0]])
                    if t != LANES[segs[0]]:
                        raise Untranslatable("lane element of type %r" % (t,))
                    atoms.append(a)
                self.uses_lane = True
                return "(lane_sel %s [%s])" % (self.lane, "; ".join(atoms)), ("lane", LANES[segs[0]])
            if len(segs) == 2 and segs[1] == "zero" and not args and (segs[0] in NEWTYPES or segs[0] == "Self"):
                nt = self.self_ty if segs[0] == "Self" else segs[0]
                return "0", nt
            if len(segs) == 2 and (segs[0], segs[1]) in self.known:
                return self.call_known(self.known[(segs[0], segs[1])], [], args)
            raise Untranslatable("call of `%s`" % "::".join(segs))
        raise Untranslatable("call of a computed function")

    def path(self, e, want):
        segs = e[1]
        if len(segs) == 2 and segs[0] in LANES and segs[1] == "ZERO":
            return "0", ("lane", LANES[segs[0]])
        if len(segs) == 2 and segs[0] in INTS and segs[1] in ("MAX", "MIN"):
            return zlit(INTS[segs[0]][1 if segs[1] == "MAX" else 0]), segs[0]
        raise Untranslatable("path `%s`" % "::".join(segs))

    # ---- control flow
    def block_code(self, blk, want, as_stmt=False):
        """Translate a block in a fresh prelude; returns (monadic code string, type, pure atom or None)."""
        save_pre, save_env = self.pre, dict(self.env)
        self.pre = []
        a, t = self.block_value(blk, want)
        pre, self.pre, self.env = self.pre, save_pre, save_env
        if not pre:
            return "Ok %s" % a, t, a
        return " ".join(pre) + " Ok %s" % a, t, None

    def block_value(self, blk, want):
        if blk[0] != "block":
            return self.ex(blk, want)
        for s in blk[1]:
            self.stmt(s)
        if blk[2] is None:
            return "tt", "unit"
        if blk[2][0] == "for" or (blk[2][0] == "mcall" and blk[2][2] == "copy_from_slice"):
            self.stmt(("expr", blk[2]))
            return "tt", "unit"
        return self.ex(blk[2], want)

    def sub_block_value(self, blk, want):
        save_env = dict(self.env)
        a, t = self.block_value(blk, want)
        self.env = save_env
        return a, t

    def if_ex(self, e, want):
        c, tc = self.ex(e[1], "bool")
        if tc != "bool":
            raise Untranslatable("if condition of type %r" % (tc,))
        if e[3] is None:
            raise Untranslatable("`if` without `else` used as a value")
        c1, t1, p1 = self.block_code(e[2], want)
        c2, t2, p2 = self.block_code(e[3], want if want is not None else t1)
        t = self.unify(t1, t2, "if branches")
        if p1 is not None and p2 is not None:
            return "(if %s then %s else %s)" % (c, p1, p2), t
        return self.bind("(if %s then (%s) else (%s))" % (c, c1, c2)), t

    def pat_cond(self, pat, scrut, st):
        """boolean Coq expression: does `scrut` (atom of int type st) match pat"""
        k = pat[0]
        if k == "pwild":
            return "true"
        if k == "plit":
            return "(%s =? %s)" % (scrut, zlit(pat[1]))
        if k == "prange":
            hi = pat[2]
            if isinstance(hi, tuple):
                a, _ = self.path(hi, st)
                hi = a
            else:
                hi = zlit(hi)
            return "((%s <=? %s) && (%s <=? %s))" % (zlit(pat[1]), scrut, scrut, hi)
        if k == "por":
            return "(" + " || ".join(self.pat_cond(p, scrut, st) for p in pat[1]) + ")"
        raise Untranslatable("pattern %r" % (pat,))

    def match_ex(self, e, want):
        scrut, arms = e[1], e[2]
        # match a.cmp(&b) { Ordering::Greater/Less/Equal }
        if scrut[0] == "mcall" and scrut[2] == "cmp" and len(scrut[3]) == 1:
            a, ta = self.ex(scrut[1])
            b, tb = self.ex(scrut[3][0], self.underlying(ta))
            if self.underlying(ta) != self.underlying(tb) or not is_int(self.underlying(ta)):
                raise Untranslatable(".cmp of %r and %r" % (ta, tb))
            conds = []
            for pat, guard, body in arms:
                if guard is not None:
                    raise Untranslatable("guard on an Ordering arm")
                if pat[0] == "ppath" and pat[1][-1] in ("Greater", "Less", "Equal"):
                    conds.append(({"Greater": "(%s <? %s)" % (b, a), "Less": "(%s <? %s)" % (a, b), "Equal": "(%s =? %s)" % (a, b)}[pat[1][-1]], body))
                elif pat[0] == "pwild":
                    conds.append(("true", body))
                else:
                    raise Untranslatable("Ordering pattern %r" % (pat,))
            seen = set(p[1][-1] for p, _, _ in arms if p[0] == "ppath")
            if not (seen == {"Greater", "Less", "Equal"} or any(p[0] == "pwild" for p, _, _ in arms)):
                raise Untranslatable("non-exhaustive Ordering match")
            return self.cond_chain(conds, want, exhaustive=True)
        a, ta = self.ex(scrut)
        u = self.underlying(ta)
        if not is_int(u):
            raise Untranslatable("match on %r" % (ta,))
        conds = []
        for pat, guard, body in arms:
            c = self.pat_cond(pat, a, u)
            if guard is not None:
                save = self.pre
                self.pre = []
                g, tg = self.ex(guard, "bool")
                gp, self.pre = self.pre, save
                if gp:
                    raise Untranslatable("checked arithmetic in a match guard")
                c = g if c == "true" else "(%s && %s)" % (c, g)
            conds.append((c, body))
        exhaustive = any(c == "true" for c, _ in conds)
        return self.cond_chain(conds, want, exhaustive)

    def cond_chain(self, conds, want, exhaustive):
        parts, t, allpure = [], want, True
        for c, body in conds:
            code, tb, pure = self.block_code(body, t)
            if not (body[0] == "macro" and body[1] == "unreachable"):
                t = self.unify(t, tb, "match arms")
            parts.append((c, code, pure))
            if pure is None:
                allpure = False
        if not exhaustive:
            # Rust checked exhaustiveness by types; for integer scrutinees a missing `_` means the ranges cover the type
            parts.append(("true", "Panic PAssert", None))
            allpure = False
        if allpure:
            s = parts[-1][2]
            for c, code, pure in reversed(parts[:-1]):
                s = "(if %s then %s else %s)" % (c, pure, s)
            return s, t
        s = "(%s)" % parts[-1][1]
        for c, code, pure in reversed(parts[:-1]):
            s = "(if %s then (%s) else %s)" % (c, code, s)
        return self.bind(s), t

    def copy_from_slice(self, e):
        # rgba.copy_from_slice(bytemuck::cast::<i32x4, u8x16>(v).as_array_ref()): the bytes of lane `lane`, little endian
        recv, arg = e[1], e[3][0]
        if recv[0] != "var" or recv[1] not in self.env:
            raise Untranslatable("copy_from_slice target")
        if not (arg[0] == "mcall" and arg[2] == "as_array_ref" and arg[1][0] == "call" and arg[1][1][0] == "path"
                and arg[1][1][1] == ["bytemuck", "cast"] and len(arg[1][2]) == 1):
            raise Untranslatable("copy_from_slice source other than bytemuck::cast(..).as_array_ref()")
        a, t = self.ex(arg[1][2][0])
        if t != ("lane", "i32"):
            raise Untranslatable("bytemuck::cast of %r" % (t,))
        v = self.fresh(recv[1] + "_")
        self.pre.append("let %s := le_bytes4 %s in" % (v, a))
        self.env[recv[1]] = (v, "bytes4")
        self.uses_lane = True

    # ---- statements
    def bind_pattern(self, pat, atom, t):
        if pat[0] == "pid":
            v = self.fresh(re.sub(r"\W", "_", pat[1]) + "_")
            self.pre.append("let %s := %s in" % (v, atom))
            self.env[pat[1]] = (v, t)
        elif pat[0] == "pwild":
            pass
        elif pat[0] == "ptuple":
            if not (isinstance(t, tuple) and t[0] == "tup" and len(t[1]) == len(pat[1])):
                raise Untranslatable("tuple pattern against %r" % (t,))
            v = self.fresh("p")
            self.pre.append("let %s := %s in" % (v, atom))
            for i, (p, ti) in enumerate(zip(pat[1], t[1])):
                self.bind_pattern(p, self.proj(v, i, len(t[1])), ti)
        else:
            raise Untranslatable("let pattern %r" % (pat,))

    def stmt(self, s):
        k = s[0]
        if k == "let":
            for a in s[4]:
                if a.startswith("cfg"):
                    # the only cfg attribute accepted selects the byte order; the model is of a little-endian target
                    if "target_endian" in a and '"little"' in a:
                        continue
                    if "target_endian" in a and '"big"' in a:
                        return
                    raise Untranslatable("cfg attribute on a statement: " + a)
            want = norm_ty(s[2], self.self_ty) if s[2] is not None else None
            a, t = self.ex(s[3], want)
            if want is None and s[1][0] == "pid" and self.literal_valued(s[3]):
                if not hasattr(self, "flex"):
                    self.flex = set()
                self.flex.add(s[1][1])
            if want is not None and t != want:
                if not (self.underlying(t) == self.underlying(want)):
                    raise Untranslatable("let %r: declared %r, found %r" % (s[1], want, t))
                t = want
            self.bind_pattern(s[1], a, t)
        elif k == "assign":
            name = self.src_text(s[1])
            if name is None and self.lane is not None and s[1][0] == "index" and s[1][1][0] == "var" \
                    and s[1][2][0] == "var" and self.env.get(s[1][2][1], (None, None))[1] == "laneidx" and s[2] == "=":
                # X[i] = e  inside the lane loop: element `lane` of the output slice
                name = s[1][1][1]
                old, t = self.env[name]
                t0 = strip_mutref(t)
                if not (isinstance(t0, tuple) and t0[0] == "arr"):
                    raise Untranslatable("indexed assignment to %r" % (t,))
                a, ta = self.ex(s[3], t0[1])
                if ta != t0[1]:
                    raise Untranslatable("element of type %r stored into %r" % (ta, t0))
                v = self.fresh(name + "_")
                self.pre.append("let %s := %s in" % (v, a))
                self.env[name] = (v, ("elem", t0[1]))
                return
            if name is None or name not in self.env:
                raise Untranslatable("assignment to %r" % (s[1],))
            old, t = self.env[name]
            if s[2] == "=":
                a, ta = self.ex(s[3], t)
            else:
                a, ta = self.binary(("bin", s[2][:-1], s[1], s[3]), t)
            if self.underlying(ta) != self.underlying(t):
                raise Untranslatable("assignment of %r to `%s`: %r" % (ta, name, t))
            v = self.fresh(re.sub(r"\W", "_", name) + "_")
            self.pre.append("let %s := %s in" % (v, a))
            self.env[name] = (v, t)
        elif k == "expr":
            e = s[1]
            if e[0] == "macro" and e[1] in ("debug_assert", "assert"):
                if self.lane is not None and mentions_len(e[2][0]):
                    self.notes.append("dropped in the lane-wise translation: %s!(.. .len() ..)" % e[1])
                    return
                c, tc = self.ex(e[2][0], "bool")
                self.pre.append("let* _ := assert_c %s in" % c)
            elif e[0] == "for" and self.lane is not None:
                # `for i in 0..N { X[i] = e[i] ... }` over the lanes: translated once, for the symbolic lane
                pat, it, body = e[1], e[2], e[3]
                if pat[0] != "pid" or it[0] != "range" or it[3] or it[1][0] != "int" or it[1][1] != 0 or it[2][0] != "int":
                    raise Untranslatable("for loop other than `for i in 0..N`")
                self.lane_count = it[2][1]
                self.env[pat[1]] = (self.lane, "laneidx")
                self.uses_lane = True
                for st in body[1]:
                    self.stmt(st)
                if body[2] is not None:
                    raise Untranslatable("for body with a value")
                del self.env[pat[1]]
            elif e[0] == "mcall" and e[2] == "copy_from_slice" and self.lane is not None:
                self.copy_from_slice(e)
            elif e[0] == "if" and e[3] is None:
                raise Untranslatable("conditional statement (mutation under `if`)")
            else:
                raise Untranslatable("expression statement %s" % e[0])
        else:
            raise Untranslatable("statement %s" % k)


# ------------------------------------------------------------------------------------------------ drivers
class Source:
    def __init__(self, repo, rel):
        p = os.path.join(repo, rel)
        if not os.path.exists(p):
            raise Untranslatable("file %s missing" % rel)
        self.text = strip_comments(open(p).read())
        self.toks = tokenize(self.text)


def translate_fn(src, scope, name, coq_name, known, self_ty=None, lane=None, field_vars=None, endian_hack=None):
    toks = find_scope(src.toks, scope) if scope else src.toks
    params, ret, body = find_fn(toks, name)
    em = Emitter(known, self_ty=self_ty, lane=lane, field_vars=field_vars)
    cparams, outs, ptys = [], [], []
    for pn, pt in params:
        t = norm_ty(pt, self_ty) if pn != "self" else self_ty
        if pn == "self" and self_ty is None:
            raise Untranslatable("self parameter without an impl type")
        if isinstance(t, tuple) and t[0] == "mutref":
            outs.append(pn)
            t = t[1]
        ptys.append(t)
        cn = "a_" + pn
        if isinstance(t, tuple) and t[0] == "tup":
            cparams.append("(%s : %s)" % (cn, coq_type(t)))
        else:
            cparams.append("(%s : %s)" % (cn, coq_type(t)))
        em.env[pn] = (cn, t)
    if lane is not None:
        em.lane = "lane"
    rty = norm_ty(ret, self_ty) if ret is not None else None
    a, t = em.block_value(body, rty)
    if rty is not None and t != rty and em.underlying(t) != em.underlying(rty):
        raise Untranslatable("fn %s returns %r, declared %r" % (name, t, rty))
    res_atoms, res_tys = [], []
    if rty is not None:
        res_atoms.append(a); res_tys.append(rty)
    for o in outs:
        ot = em.env[o][1]
        if isinstance(ot, tuple) and ot[0] == "elem":
            ot = ot[1]
        elif isinstance(ot, tuple) and ot[0] == "arr":
            raise Untranslatable("output slice `%s` is never written" % o)
        res_atoms.append(em.env[o][0]); res_tys.append(ot)
    if not res_atoms:
        raise Untranslatable("fn %s has no result" % name)
    if len(res_atoms) == 1:
        final, fty = res_atoms[0], res_tys[0]
    else:
        final, fty = "(" + ", ".join(res_atoms) + ")", ("tup", res_tys)
    fallible = any(l.startswith("let*") for l in em.pre)
    lines = em.pre
    if lane is not None and em.uses_lane:
        cparams.append("(lane : Z)")
        ptys.append("laneidx")
    if fallible:
        body_code = "\n  ".join(lines + ["Ok %s" % final])
        sig = "res %s" % coq_type(fty)
    else:
        body_code = "\n  ".join(lines + [final])
        sig = coq_type(fty)
    text = "".join("(* %s *)\n" % n for n in em.notes)
    text += "Definition %s %s : %s :=\n  %s.\n" % (coq_name, " ".join(cparams), sig, body_code)
    return text, (coq_name, ptys, fty, fallible)


def translate_fragment(src, scope, fn_name, steps, free, result, coq_name, known, params):
    """steps: [('let', name) | ('assign', name)] found in order inside fn `fn_name`; free: source text -> (coq atom, type);
    params: Coq binder list; result: rust variable whose final value is returned."""
    toks = find_scope(src.toks, scope) if scope else src.toks
    # restrict to the function's tokens
    start = None
    for i in range(len(toks) - 1):
        if toks[i] == ("id", "fn") and toks[i + 1] == ("id", fn_name):
            start = i
            break
    if start is None:
        raise Untranslatable("fn `%s` not found" % fn_name)
    j = start
    while not (toks[j][0] == "op" and toks[j][1] == "{"):
        j += 1
    ftoks = toks[j:match_brace(toks, j)]
    if steps == "sink:index2":
        # the fragment is whatever computes the value stored by the (only) doubly indexed assignment `a[i][j] = V;` of the
        # function: V's `let` (looking through a final `.into()`), and - pulled in below - every local it depends on; no local
        # is named here, so renaming them does not matter
        sinks = []
        for i in range(1, len(ftoks) - 8):
            if ftoks[i][0] == "id" and ftoks[i + 1] == ("op", "[") and ftoks[i - 1][0] == "op" and ftoks[i - 1][1] in (";", "{", "}"):
                j = match_bracket(ftoks, i + 1)
                if j is not None and j + 1 < len(ftoks) and ftoks[j + 1] == ("op", "["):
                    k2 = match_bracket(ftoks, j + 1)
                    if k2 is not None and ftoks[k2 + 1] == ("op", "=") and ftoks[k2 + 2][0] == "id" and ftoks[k2 + 3] == ("op", ";"):
                        sinks.append(ftoks[k2 + 2][1])
        sinks = [v for v in sinks if True]
        if len(set(sinks)) != 1:
            raise Untranslatable("the doubly indexed store of a local (found %d)" % len(set(sinks)))
        v = sinks[0]
        st, _ = find_stmt_tokens(ftoks, "let", v, 0)
        # `let v = x.into();`
        body = [t for t in st[2:-1]]
        if body and body[0] == ("op", "="):
            body = body[1:]
        if len(body) == 5 and body[0][0] == "id" and body[1:] == [("op", "."), ("id", "into"), ("op", "("), ("op", ")")]:
            v = body[0][1]
        steps, result = [("let", v)], v
    # a step may use a local that a rewrite of the source introduced in front of it (`let dq = d.unwrap_or(0); let q = a + dq;`):
    # such a `let` is pulled into the fragment (searched from the start of the function) and the translation restarted
    steps = list(steps)
    for _attempt in range(8):
        em = Emitter(known, field_vars={k: v for k, v in free.items() if ("." in k or "[" in k)})
        for k, v in free.items():
            if "." not in k and "[" not in k:
                em.env[k] = v
        pos = 0
        missing = None
        for kind, name in steps:
            if isinstance(kind, tuple):          # a pulled-in prerequisite: ('pre', 'let'), searched from the start
                st, _ = find_stmt_tokens(ftoks, kind[1], name, 0)
            else:
                st, pos = find_stmt_tokens(ftoks, kind, name, pos)
            p = Parser(st)
            s, _ = p.stmt()
            try:
                em.stmt(s)
            except Untranslatable as ex:
                m = re.match(r"unknown variable `(\w+)`", str(ex))
                if not m or any(n == m.group(1) for _, n in steps):
                    raise
                missing = m.group(1)
                break
        if missing is None:
            break
        idx = [i for i, (k, n) in enumerate(steps) if (k, n) == (kind, name)][0]
        steps.insert(idx, (("pre", "let"), missing))
    else:
        raise Untranslatable("fragment needs too many earlier locals")
    if result not in em.env:
        raise Untranslatable("fragment result `%s` not bound" % result)
    a, t = em.env[result]
    fallible = any(l.startswith("let*") for l in em.pre)
    if fallible:
        body = "\n  ".join(em.pre + ["Ok %s" % a])
        sig = "res %s" % coq_type(t)
    else:
        body = "\n  ".join(em.pre + [a])
        sig = coq_type(t)
    return "Definition %s %s : %s :=\n  %s.\n" % (coq_name, params, sig, body), (coq_name, None, t, fallible)


# ------------------------------------------------------------------------------------------------ the kernel list
HEADER = ("(* GENERATED by tools/rs2v.py (rs2v_kernels) from %s -- do not edit.\n"
          "   One definition per translated kernel; a kernel the translator could not handle is absent and named in\n"
          "   gen/STATUS.json, so the bridge lemma about it stops compiling. *)\n"
          "From H263V Require Import base.Prelude base.Checked.\n\n")


def run_group(repo, status, fname, rel, items, write, extra_import=""):
    """items: list of dicts(kind='fn'|'frag', ...); later items may call earlier ones."""
    body = HEADER % rel + extra_import + ("\n" if extra_import else "")
    known = {}
    try:
        src = Source(repo, rel)
    except Untranslatable as e:
        for it in items:
            status["kernel." + it["coq"]] = "untranslatable: %s" % e
        write(fname, body)
        return
    for it in items:
        key = "kernel." + it["coq"]
        try:
            if it["kind"] == "fn":
                text, sig = translate_fn(src, it.get("scope"), it["name"], it["coq"], known, self_ty=it.get("self_ty"),
                                         lane=it.get("lane"))
                known[(it.get("self_ty") if it.get("method") else None, it["name"])] = sig
            else:
                text, sig = translate_fragment(src, it.get("scope"), it["fn"], it["steps"], it["free"], it["result"],
                                               it["coq"], known, it["params"])
            body += text + "\n"
            status[key] = "ok"
        except Untranslatable as e:
            body += "(* %s: untranslatable: %s *)\n\n" % (it["coq"], str(e).replace("*)", "* )"))
            status[key] = "untranslatable: %s" % e
        except RecursionError:
            status[key] = "untranslatable: expression too deep"
    write(fname, body)


def gen_kernels(repo, status, write):
    S, L = "mod scalar_impl", "mod simd_impl"
    run_group(repo, status, "GenKDeblock.v", "deblock/src/deblock.rs", [
        dict(kind="fn", scope=S, name="up_down_ramp", coq="k_up_down_ramp"),
        dict(kind="fn", scope=S, name="clipd1", coq="k_clipd1"),
        dict(kind="fn", scope=S, name="process", coq="k_process"),
        dict(kind="fn", scope=L, name="signum_simd", coq="k_signum_simd", lane=True),
        dict(kind="fn", scope=L, name="clamp_simd", coq="k_clamp_simd", lane=True),
        dict(kind="fn", scope=L, name="div_pow2_simd", coq="k_div_pow2_simd", lane=True),
        dict(kind="fn", scope=L, name="up_down_ramp_simd", coq="k_up_down_ramp_simd", lane=True),
        dict(kind="fn", scope=L, name="clipd1_simd", coq="k_clipd1_simd", lane=True),
        dict(kind="fn", scope=L, name="into_simd16", coq="k_into_simd16", lane=True),
        dict(kind="fn", scope=L, name="process_simd", coq="k_process_simd", lane=True),
    ], write)
    run_group(repo, status, "GenKYuv.v", "yuv/src/bt601.rs", [
        dict(kind="fn", name="yuv_to_rgba_4x", coq="k_yuv_to_rgba_4x", lane=True),
    ], write)
    H = "impl HalfPel"
    run_group(repo, status, "GenKTypes.v", "h263/src/types.rs", [
        dict(kind="fn", scope=H, name="into_lerp_parameters", coq="k_into_lerp_parameters", self_ty="HalfPel", method=True),
        dict(kind="fn", scope=H, name="invert", coq="k_invert", self_ty="HalfPel", method=True),
        dict(kind="fn", scope=H, name="is_mv_within_range", coq="k_is_mv_within_range", self_ty="HalfPel", method=True),
        dict(kind="fn", scope=H, name="is_predictor_within_range", coq="k_is_predictor_within_range", self_ty="HalfPel", method=True),
        dict(kind="fn", scope=H, name="average_sum_of_mvs", coq="k_average_sum_of_mvs", self_ty="HalfPel", method=True),
        dict(kind="fn", scope=H, name="median_of", coq="k_median_of", self_ty="HalfPel", method=True),
        dict(kind="fn", scope="impl Add<HalfPel> for HalfPel", name="add", coq="k_halfpel_add", self_ty="HalfPel", method=True),
        dict(kind="fn", scope="impl Neg for HalfPel", name="neg", coq="k_halfpel_neg", self_ty="HalfPel", method=True),
        dict(kind="fn", scope="impl IntraDc", name="from_u8", coq="k_intradc_from_u8", self_ty="IntraDc", method=True),
        dict(kind="fn", scope="impl IntraDc", name="into_level", coq="k_intradc_into_level", self_ty="IntraDc", method=True),
    ], write)
    run_group(repo, status, "GenKRle.v", "h263/src/decoder/cpu/rle.rs", [
        dict(kind="frag", fn="inverse_rle", coq="k_dequant", params="(quant level : Z)",
             steps="sink:index2",
             free={"quant": ("quant", "u8"), "tcoef.level": ("level", "i16")}, result=None),
    ], write)
    run_group(repo, status, "GenKState.v", "h263/src/decoder/state.rs", [
        dict(kind="frag", fn="decode_next_picture", coq="k_quant_update", params="(in_force_quantizer : Z) (d_quantizer : option Z)",
             steps=[("let", "quantizer"), ("assign", "in_force_quantizer")],
             free={"in_force_quantizer": ("in_force_quantizer", "u8"), "d_quantizer": ("d_quantizer", ("opt", "i8"))},
             result="in_force_quantizer"),
    ], write)
    run_group(repo, status, "GenKPicture.v", "h263/src/decoder/picture.rs", [
        dict(kind="frag", fn="new", coq="k_luma_samples", params="(w h : Z)", steps=[("let", "luma_samples")],
             free={"w": ("w", "u16"), "h": ("h", "u16")}, result="luma_samples"),
        dict(kind="frag", fn="new", coq="k_chroma_w", params="(w : Z)", steps=[("let", "chroma_w")],
             free={"w": ("w", "u16")}, result="chroma_w"),
        dict(kind="frag", fn="new", coq="k_chroma_h", params="(h : Z)", steps=[("let", "chroma_h")],
             free={"h": ("h", "u16")}, result="chroma_h"),
        dict(kind="frag", fn="new", coq="k_chroma_samples", params="(chroma_w chroma_h : Z)", steps=[("let", "chroma_samples")],
             free={"chroma_w": ("chroma_w", "usize"), "chroma_h": ("chroma_h", "usize")}, result="chroma_samples"),
    ], write, extra_import="From H263V Require Import model.F32.\n")
    run_group(repo, status, "GenKGather.v", "h263/src/decoder/cpu/gather.rs", [
        dict(kind="fn", name="lerp", coq="k_lerp"),
        dict(kind="frag", fn="read_sample", coq="k_read_sample_x", params="(x samples_per_row : Z)",
             steps=[("let", "x")], free={"x": ("x", "isize"), "samples_per_row": ("samples_per_row", "usize")}, result="x"),
        dict(kind="frag", fn="read_sample", coq="k_read_sample_y", params="(y num_rows : Z)",
             steps=[("let", "y")], free={"y": ("y", "isize"), "num_rows": ("num_rows", "usize")}, result="y"),
        dict(kind="frag", fn="gather_block", coq="k_avg4", params="(sample_0_0 sample_1_0 sample_0_1 sample_1_1 : Z)",
             steps=[("let", "sample")],
             free={k: (k, "u8") for k in ("sample_0_0", "sample_1_0", "sample_0_1", "sample_1_1")}, result="sample"),
        dict(kind="frag", fn="gather_block", coq="k_block_cols", params="(samples_per_row pos_0 : Z)",
             steps=[("let", "block_cols")],
             free={"samples_per_row": ("samples_per_row", "usize"), "pos.0": ("pos_0", "usize")}, result="block_cols"),
        dict(kind="frag", fn="gather_block", coq="k_block_rows", params="(array_height pos_1 : Z)",
             steps=[("let", "block_rows")],
             free={"array_height": ("array_height", "usize"), "pos.1": ("pos_1", "usize")}, result="block_rows"),
        dict(kind="frag", fn="gather_block", coq="k_src_x", params="(pos_0 x_delta : Z)",
             steps=[("let", "src_x")],
             free={"x_delta": ("x_delta", "i16"), "pos.0": ("pos_0", "usize")}, result="src_x"),
    ], write)


if __name__ == "__main__":
    st = {}
    def w(fname, text):
        print("=" * 20, fname)
        print(text)
    gen_kernels(os.environ.get("VERIF_REPO", "/repo"), st, w)
    for k in sorted(st):
        print(k, st[k])
