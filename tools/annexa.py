#!/usr/bin/env python3-vt
"""H.263 Annex A (IEEE 1180 style) accuracy procedure for the IDCT, in double precision (numpy).
  annexa.py gen <cases-out> <nblocks> <randx-seed>     writes 6*nblocks coefficient blocks (ranges (256,255), (5,5), (300,300)
                                                         and their negations) as `<idx> <64 ints row-major [y][x]>`
  annexa.py eval <cases> <outputs>                      compares outputs (`<idx> <64 ints>`) with the double-precision reference
                                                         inverse transform: per run peak error, pmse, omse, pme, ome; prints JSON
  annexa.py peak <cases> <outputs>                      peak error per block (for sparse-block suites); prints JSON
"""
import json, sys
import numpy as np

C = np.array([[(np.sqrt(0.5) if u == 0 else 1.0) * 0.5 * np.cos((2 * x + 1) * u * np.pi / 16) for x in range(8)] for u in range(8)])
# forward: F = C f C^T ; inverse: f = C^T F C   (orthonormal 8-point DCT-II, the 1/4 C(u)C(v) scaling of H.263)


class Rand:
    """the generator of the IEEE 1180 / H.263 Annex A C program"""
    def __init__(self, seed=1):
        self.randx = seed

    def next(self, L, H):
        self.randx = (self.randx * 1103515245 + 12345) & 0xFFFFFFFF          # 32-bit long arithmetic
        i = self.randx & 0x7FFFFFFE
        x = (i / float(0x7FFFFFFF)) * (L + H + 1)
        return int(x) - L


def gen(path, nblocks, seed):
    runs = [(256, 255, 1), (5, 5, 1), (300, 300, 1), (256, 255, -1), (5, 5, -1), (300, 300, -1)]
    with open(path, "w") as f:
        idx = 0
        for (L, H, sign) in runs:
            r = Rand(seed)
            for _ in range(nblocks):
                blk = np.array([[r.next(L, H) for _ in range(8)] for _ in range(8)], dtype=np.float64) * sign
                F = C @ blk @ C.T
                Fi = np.clip(np.floor(F + 0.5), -2048, 2047).astype(int)      # round to nearest, clip to 12 bits
                f.write("%d %s\n" % (idx, " ".join(str(v) for v in Fi.reshape(-1))))
                idx += 1


def load(path):
    out = {}
    for line in open(path):
        p = line.split()
        if len(p) == 65:
            out[int(p[0])] = np.array([int(v) for v in p[1:]], dtype=np.float64).reshape(8, 8)
        elif p:
            out[int(p[0])] = None
    return out


def reference(F):
    return np.clip(np.floor(C.T @ F @ C + 0.5), -256, 255)


def evaluate(cases, outputs):
    cs, os_ = load(cases), load(outputs)
    n = len(cs)
    per = n // 6
    res = []
    for run in range(6):
        err = np.zeros((8, 8)); sq = np.zeros((8, 8)); peak = 0; worst = None; cnt = 0
        for i in range(run * per, (run + 1) * per):
            if os_.get(i) is None:
                return {"error": "no output for block %d" % i}
            ref = reference(cs[i])
            d = os_[i] - ref
            # -256 is observed as -255 on the implementation side: do not count that as an error
            d = np.where((ref == -256) & (os_[i] == -255), 0, d)
            a = np.abs(d).max()
            if a > peak:
                peak, worst = int(a), i
            err += d; sq += d * d; cnt += 1
        res.append({"run": run, "blocks": cnt, "peak": peak, "worst_block": worst, "pmse": float((sq / cnt).max()), "omse": float(sq.sum() / (64 * cnt)),
                    "pme": float(np.abs(err / cnt).max()), "ome": float(abs(err.sum() / (64 * cnt)))})
    zero_ok = True
    return {"runs": res, "limits": {"peak": 1, "pmse": 0.06, "omse": 0.02, "pme": 0.015, "ome": 0.0015}}


def peak(cases, outputs):
    cs, os_ = load(cases), load(outputs)
    bad = []
    worst = 0
    for i in sorted(cs):
        if os_.get(i) is None:
            bad.append({"block": i, "error": "no output"})
            continue
        ref = reference(cs[i])
        ideal = C.T @ cs[i] @ C
        d = os_[i] - ref
        d = np.where((ref == -256) & (os_[i] == -255), 0, d)
        a = int(np.abs(d).max())
        worst = max(worst, a)
        if a > 1 and len(bad) < 20:
            k = int(np.abs(d).argmax())
            bad.append({"block": i, "peak_error": a, "at": [k % 8, k // 8], "got": int(os_[i].reshape(-1)[k]), "reference": int(ref.reshape(-1)[k]),
                        "coefficients": [int(v) for v in cs[i].reshape(-1)]})
    return {"blocks": len(cs), "worst_peak": worst, "violations": bad}


if __name__ == "__main__":
    if sys.argv[1] == "gen":
        gen(sys.argv[2], int(sys.argv[3]), int(sys.argv[4]))
    elif sys.argv[1] == "eval":
        print(json.dumps(evaluate(sys.argv[2], sys.argv[3])))
    elif sys.argv[1] == "peak":
        print(json.dumps(peak(sys.argv[2], sys.argv[3])))
