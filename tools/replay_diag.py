#!/usr/bin/env python3
"""Diagnose a decode-history replay: run it on the implementation with panic messages on."""
import json, subprocess, sys
r = json.load(open(sys.argv[1]))
open("/tmp/diag.cases", "w").write("0 %d %s\n" % (r["options"], " ".join(r["ops"])))
p = subprocess.run(["/verif/harness/target/checked/h263-verif-harness", "decode", "hash", "/tmp/diag.cases"],
                   stdout=subprocess.PIPE, stderr=subprocess.PIPE, env={"VERIF_PANIC_MSG": "1"})
print(p.stderr.decode()[-600:])
print(" | ".join(t[:70] for t in p.stdout.decode().split("|")))
