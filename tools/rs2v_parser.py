#!/usr/bin/env python3
"""rs2v_parser: translate the picture-header field decoders of h263/src/parser/picture.rs from Rust source into
Gallina over the abstract reader of model/Reader.v (coq/gen/GenPHeader.v).

The functions are imperative Rust with early returns, `?`, mutation of local variables (bit-flag accumulation under
`if`), matches whose arms return, and the reader threaded by `&mut`.  The emitter is a continuation-passing translation:

  * the reader is one more mutable variable; `reader.read_bits::<T>(n)?` is `let* (v, r') := read_bits W n r in ..`
    (W = the width of T, taken from the turbofish, the `let` annotation, or inferred from the typed use of the value -
    a struct field, an enum payload, a comparison; if it cannot be inferred the function is untranslatable);
  * `with_transaction(|reader| BODY)` is BODY: a failed operation of the model returns `Err` without a reader, which
    is the effect of the rollback (model/Reader.v);
  * `return e` ends the function; `if c { S }` whose body only updates variables becomes conditional updates, any other
    conditional statement becomes a join point `let k := fun vars => REST in if c then S[k] else k vars`;
  * bit-flag types are integers (`|=` is Z.lor, `.contains` is `has`), enums and structs map to the model's
    constructors (ENUMS / STRUCTS below); integer arithmetic that Rust checks goes through base/Checked.v.

Each generated definition is proved equal to the hand-written model's in coq/bridge/BridgePHeader.v.
"""
import os, re, sys
sys.path.insert(0, os.path.dirname(os.path.abspath(__file__)))
from rs2v_kernels import (Untranslatable, Parser, Source, find_fn, tokenize, match_brace, parse_int, INTS, COQTY, zlit)

ERRORS = {"InvalidPType": "EInvalidPType", "InvalidPlusPType": "EInvalidPlusPType", "PictureFormatInvalid": "EPictureFormatInvalid",
          "InvalidBitstream": "EInvalidBitstream", "UnimplementedDecoding": "EUnimplemented", "InternalDecoderError": "EInternal",
          "MiddleOfBitstream": "EMiddleOfBitstream", "PictureFormatMissing": "EPictureFormatMissing", "UncodedIFrameBlocks": "EUncodedIFrameBlocks",
          "InvalidMacroblockHeader": "EInvalidMacroblockHeader", "InvalidMacroblockCodedBits": "EInvalidMacroblockCodedBits",
          "InvalidMvd": "EInvalidMvd", "InvalidGobHeader": "EInvalidGobHeader", "InvalidIntraDc": "EInvalidIntraDc",
          "InvalidShortCoefficient": "EInvalidShortCoefficient", "InvalidLongCoefficient": "EInvalidLongCoefficient"}

# bit-flag types: integer-valued; constants of PictureOption are the model's names (their values are bridged in BridgeTables)
FLAGS = {"PictureOption": None, "PlusPTypeFollower": {}, "SliceSubmode": {}, "ReferencePictureSelectionMode": {}}
# enum constructors -> model constructors (payload types are read from the Rust definitions)
ENUMS = {
    "SourceFormat": {"SubQcif": "SubQcif", "QuarterCif": "QuarterCif", "FullCif": "FullCif", "FourCif": "FourCif",
                     "SixteenCif": "SixteenCif", "Reserved": "SfReserved", "Extended": "Extended"},
    "PictureTypeCode": {"IFrame": "IFrame", "PFrame": "PFrame", "PbFrame": "PbFrame", "ImprovedPbFrame": "ImprovedPbFrame",
                        "BFrame": "BFrame", "EiFrame": "EiFrame", "EpFrame": "EpFrame", "Reserved": "PtReserved",
                        "DisposablePFrame": "DisposablePFrame"},
    "PixelAspectRatio": {"Square": "Square", "Par12_11": "Par12_11", "Par10_11": "Par10_11", "Par16_11": "Par16_11",
                         "Par40_33": "Par40_33", "Reserved": "ParReserved", "Extended": "ParExtended"},
    "MotionVectorRange": {"Extended": "MvExtended", "Unlimited": "MvUnlimited"},
    "BPictureQuantizer": {"Five": "5", "Six": "6", "Seven": "7", "Eight": "8"},
    "MacroblockType": {"Inter": "Inter", "InterQ": "InterQ", "Inter4V": "Inter4V", "Intra": "Intra", "IntraQ": "IntraQ", "Inter4Vq": "Inter4Vq"},
    "BlockPatternEntry": {"Stuffing": "BpStuffing", "Invalid": "BpInvalid", "Valid": "BpValid"},
    "Macroblock": {"Uncoded": "MbUncoded", "Stuffing": "MbStuffing", "Coded": "MbCoded"},
    "ShortTCoefficient": {"EscapeToLong": "EscapeToLong", "Run": "Run"},
}
# methods of enums that the model has as functions of the same meaning (their Rust definitions are translated and bridged too)
ENUM_METHODS = {("PictureTypeCode", "is_disposable"): "is_disposable", ("MacroblockType", "is_inter"): "mb_is_inter", ("MacroblockType", "is_intra"): "mb_is_intra",
                ("MacroblockType", "has_fourvec"): "mb_has_fourvec", ("MacroblockType", "has_quantizer"): "mb_has_quantizer",
                ("PictureTypeCode", "is_any_pbframe"): "is_any_pbframe"}
# VLC tables: the model's table of the same (lower-case) name, regenerated and bridged in BridgeTables; type of a leaf
VLC_TABLES = {"MCBPC_I_TABLE": ("mcbpc_i_table", "BlockPatternEntry"), "MCBPC_P_TABLE": ("mcbpc_p_table", "BlockPatternEntry"),
              "MODB_TABLE": ("modb_table", ("tup", ("bool", "bool"))), "CBPY_TABLE_INTRA": ("cbpy_table_intra", ("opt", ("list", "bool"))),
              "MVD_TABLE": ("mvd_table", ("opt", "HalfPel")), "TCOEF_TABLE": ("tcoef_table", ("opt", "ShortTCoefficient"))}
COQ_OF_TYPE = {"fmat": "(list (list Z))", "frow": "(list Z)", "f32z": "Z", "Plane": "plane", "H263State": "state", "PictureMap": "pmap", "DecodedPicture": "decoded_picture", "TCoefficient": "tcoef", "Block": "block", "ShortTCoefficient": "short_tcoef", "IntraDc": "Z",
               "DecodedDctBlock": "dct_block", "MacroblockType": "mbtype", "BlockPatternEntry": "bpe", "Macroblock": "macroblock", "HalfPel": "Z", "MotionVector": "(Z * Z)", "CodedBlockPattern": "cbp",
               "SourceFormat": "source_format", "PictureTypeCode": "ptype_code", "PixelAspectRatio": "par_t",
               "MotionVectorRange": "mvrange", "BPictureQuantizer": "Z"}


def is_int(t):
    return isinstance(t, str) and t in INTS


class TVar:
    """an integer type still to be inferred (the T of an unannotated read_bits)"""
    def __init__(self, n):
        self.n, self.ty = n, None

    def __repr__(self):
        return "?T%d=%r" % (self.n, self.ty)


class EVar(TVar):
    """the element type of a Vec created empty, fixed by the first push"""
    any = True

    def __init__(self):
        self.n, self.ty = -1, None


def resolve(t):
    while isinstance(t, TVar) and t.ty is not None:
        t = t.ty
    return t


class Defs:
    """struct fields, enum payloads and bit-flag constants read from the Rust sources"""
    def __init__(self, repo):
        self.structs, self.payload, self.flagvals = {}, {}, {}
        for rel in ("h263/src/types.rs", "h263/src/parser/picture.rs", "h263/src/decoder/types.rs", "h263/src/parser/macroblock.rs", "h263/src/parser/block.rs"):
            try:
                toks = Source(repo, rel).toks
            except Untranslatable:
                continue
            self.scan(toks)

    def scan(self, toks):
        i = 0
        while i < len(toks) - 2:
            if toks[i] == ("id", "struct") and toks[i + 1][0] == "id":
                name = toks[i + 1][1]
                j = i + 2
                if toks[j] == ("op", ":"):        # bitflags: struct Name : u8 { const A = 0b1; ... }
                    j += 2
                    if toks[j] == ("op", "{"):
                        end = match_brace(toks, j)
                        body = toks[j + 1:end - 1]
                        vals = {}
                        k = 0
                        while k < len(body) - 3:
                            if body[k] == ("id", "const") and body[k + 2] == ("op", "=") and body[k + 3][0] == "num":
                                vals[body[k + 1][1]] = parse_int(body[k + 3][1])
                            k += 1
                        self.flagvals[name] = vals
                        i = end
                        continue
                elif toks[j] == ("op", "{"):
                    end = match_brace(toks, j)
                    p = Parser(toks[j + 1:end - 1])
                    fields = []
                    try:
                        while p.peek()[0] != "eof":
                            p.attrs()
                            if p.at_id("pub"):
                                p.next()
                            fn = p.expect_id(); p.expect(":")
                            fields.append((fn, p.ty()))
                            if p.at(","):
                                p.next()
                        self.structs[name] = fields
                    except Untranslatable:
                        pass
                    i = end
                    continue
            if toks[i] == ("id", "enum") and toks[i + 1][0] == "id" and toks[i + 2] == ("op", "{"):
                name = toks[i + 1][1]
                end = match_brace(toks, i + 2)
                p = Parser(toks[i + 3:end - 1])
                try:
                    while p.peek()[0] != "eof":
                        p.attrs()
                        v = p.expect_id()
                        if p.at("("):
                            p.next()
                            tys = []
                            while not p.at(")"):
                                tys.append(p.ty())
                                if p.at(","):
                                    p.next()
                            p.expect(")")
                            self.payload[(name, v)] = tys
                        elif p.at("{"):
                            p.next()
                            fs = []
                            while not p.at("}"):
                                p.attrs()
                                fn = p.expect_id(); p.expect(":")
                                fs.append((fn, p.ty()))
                                if p.at(","):
                                    p.next()
                            p.expect("}")
                            self.payload[(name, v)] = fs
                        else:
                            self.payload[(name, v)] = []
                        if p.at("="):
                            p.next(); p.expr()
                        if p.at(","):
                            p.next()
                except Untranslatable:
                    pass
                i = end
                continue
            i += 1


def norm(t):
    """type AST -> emitter type"""
    if isinstance(t, str):
        return t
    if t[0] == "ref":
        return norm(t[2])
    if t[0] == "tup":
        return ("tup", tuple(norm(x) for x in t[1]))
    if t[0] == "gen" and t[1] == "Option":
        return ("opt", norm(t[2][0]))
    if t[0] == "gen" and t[1] == "Result":
        return ("result", norm(t[2][0]))
    if t[0] == "gen" and t[1] == "Vec":
        return ("vec", norm(t[2][0]))
    if t[0] == "gen" and t[1] == "H263Reader":
        return "reader"
    if t[0] == "arr":
        el = norm(t[1])
        if el == "MotionVector" and t[2] is not None and t[2][0] == "int":
            return ("mvarr", t[2][1])
        return ("list", el)
    raise Untranslatable("type %r" % (t,))


class PEmitter:
    def __init__(self, defs, known, aliases):
        self.d, self.known, self.aliases = defs, known, aliases
        self.n = 0
        self.tvars = []
        self.rty = None
        self.lifted = []          # join points, lambda-lifted into definitions of their own (innermost first)
        self.fname = "p"
        self.defs_for_types = defs

    def fresh(self, base):
        self.n += 1
        return "%s%d" % (re.sub(r"\W", "_", base), self.n)

    def tvar(self):
        t = TVar(len(self.tvars))
        self.tvars.append(t)
        return t

    def unify(self, a, b, what=""):
        a, b = resolve(a), resolve(b)
        if a is b or a == b:
            return a
        if isinstance(a, TVar):
            if not (is_int(b) or isinstance(b, TVar)):
                raise Untranslatable("integer expected, found %r (%s)" % (b, what))
            a.ty = b
            return b
        if isinstance(b, TVar):
            return self.unify(b, a, what)
        if isinstance(a, tuple) and isinstance(b, tuple) and a[0] == b[0]:
            if a[0] == "opt":
                return ("opt", self.unify(a[1], b[1], what))
            if a[0] == "tup" and len(a[1]) == len(b[1]):
                return ("tup", tuple(self.unify(x, y, what) for x, y in zip(a[1], b[1])))
        if a is None:
            return b
        if b is None:
            return a
        raise Untranslatable("type mismatch %r vs %r (%s)" % (a, b, what))

    def width(self, t):
        """late-bound width of an integer type: a marker replaced once inference is done"""
        t = resolve(t)
        if isinstance(t, TVar):
            return "@W%d@" % t.n
        if is_int(t):
            return str({"u8": 8, "i8": 8, "u16": 16, "i16": 16, "u32": 32, "i32": 32, "u64": 64, "i64": 64, "usize": 64, "isize": 64}[t])
        raise Untranslatable("width of %r" % (t,))

    def finish(self, code):
        def rep(m):
            t = resolve(self.tvars[int(m.group(1))])
            if isinstance(t, TVar):
                raise Untranslatable("the integer type of a read_bits call could not be inferred")
            return self.width(t)
        code = re.sub(r"@W(\d+)@", rep, code)
        def repc(m):
            t = resolve(self.tvars[int(m.group(1))])
            if isinstance(t, TVar):
                raise Untranslatable("the integer type of an arithmetic operation could not be inferred")
            return COQTY[t]
        return re.sub(r"@C(\d+)@", repc, code)

    def cty(self, t):
        t = resolve(t)
        if isinstance(t, TVar):
            return "@C%d@" % t.n
        return COQTY[t]

    # ------------------------------------------------------------------ helpers on the AST
    def assigned(self, node, acc):
        """variables assigned anywhere inside node; '$reader' if the reader is used"""
        if isinstance(node, tuple):
            if node and node[0] == "assign":
                tgt = node[1]
                while tgt[0] in ("paren",):
                    tgt = tgt[1]
                if tgt[0] == "var":
                    acc.add(tgt[1])
                base = tgt
                while base[0] == "index":
                    base = base[1]
                if tgt[0] == "index" and base[0] == "var":
                    acc.add(base[1])
                if tgt[0] == "un" and tgt[1] == "*" and tgt[2][0] == "var":
                    acc.add("*" + tgt[2][1])
                if tgt[0] == "field" and tgt[1] == ("var", "self"):
                    acc.add("self." + tgt[2])
            if node and node[0] == "mcall" and node[1] == ("var", "self") and node[2] == "cleanup_buffers":
                acc |= {"self.last_picture", "self.reference_picture", "self.reference_states"}
            if node and node[0] == "mcall" and node[2] == "insert" and node[1] == ("field", ("var", "self"), "reference_states"):
                acc.add("self.reference_states")
            if node and node[0] == "mcall" and node[2] in ("push", "resize") and node[1][0] == "var":
                acc.add(node[1][1])
            if node and node[0] == "call" and node[1] == ("var", "gather") and len(node[2]) == 5 and node[2][4][0] == "ref" and node[2][4][1][0] == "var":
                acc.add(node[2][4][1][1])
            if node and node[0] == "mcall" and node[2] in ("as_luma_mut", "as_chroma_b_mut", "as_chroma_r_mut") and node[1][0] == "var":
                acc.add(node[1][1])
            if node and node[0] == "call" and node[1] == ("var", "inverse_rle") and len(node[2]) == 5 and node[2][1][0] == "ref" and node[2][1][1][0] == "var":
                acc.add(node[2][1][1][1])
            if node and node[0] == "var" and node[1] in ("reader", "_reader"):
                acc.add("$reader")
            for x in node:
                self.assigned(x, acc)
        elif isinstance(node, list):
            for x in node:
                self.assigned(x, acc)
        return acc

    def has_exit(self, node):
        """an explicit `return` or `break` (a `?` only propagates Err, which the monad does by itself)"""
        if isinstance(node, tuple):
            if node and node[0] in ("return", "break", "continue"):
                return True
            return any(self.has_exit(x) for x in node)
        if isinstance(node, list):
            return any(self.has_exit(x) for x in node)
        return False

    def has_loop_exit(self, node):
        if isinstance(node, tuple):
            if node and node[0] in ("break", "continue"):
                return True
            return any(self.has_loop_exit(x) for x in node)
        if isinstance(node, list):
            return any(self.has_loop_exit(x) for x in node)
        return False

    def has_return(self, node):
        if isinstance(node, tuple):
            if node and node[0] in ("return", "try", "break", "continue"):
                return True
            return any(self.has_return(x) for x in node)
        if isinstance(node, list):
            return any(self.has_return(x) for x in node)
        return False

    # ------------------------------------------------------------------ types of paths
    def flag_const(self, ty, name):
        if ty == "PictureOption":
            return name           # the model's constant of the same name
        if ty == "DecoderOption":
            raise Untranslatable("DecoderOption constant outside .contains()")
        vals = self.d.flagvals.get(ty)
        if vals is None or name not in vals:
            raise Untranslatable("bit-flag constant %s::%s" % (ty, name))
        return zlit(vals[name])

    def is_flags(self, t):
        return isinstance(t, str) and (t in FLAGS or t == "DecoderOption")

    def type_of_alias(self, t):
        return self.aliases.get(t, t) if isinstance(t, str) else t

    # ------------------------------------------------------------------ expressions, CPS: k(atom, type, env) -> code
    def expr(self, e, env, k, want=None):
        kind = e[0]
        if kind == "paren":
            return self.expr(e[1], env, k, want)
        if kind == "int":
            if e[2]:
                return k(zlit(e[1]), e[2], env)
            w = resolve(want)
            if is_int(w) or isinstance(w, TVar):
                return k(zlit(e[1]), w, env)
            return k(zlit(e[1]), self.tvar_default(), env)
        if kind == "bool":
            return k("true" if e[1] else "false", "bool", env)
        if kind == "float":
            if re.match(r"^\d+\.0$", e[1]):
                return k("(d_of_Z %s)" % e[1][:-2], "f64", env)
            raise Untranslatable("floating-point literal %s" % e[1])
        if kind == "var":
            name = e[1]
            if name == "None":
                w = resolve(want)
                return k("None", w if isinstance(w, tuple) and w[0] == "opt" else ("opt", None), env)
            if name in env:
                a, t = env[name]
                return k(a, t, env)
            if name in self.known and self.known[name][0] == "static":
                return k(self.known[name][1], self.known[name][2], env)
            if name in self.static_lists:
                return k(self.static_lists[name][0], ("static_list", self.static_lists[name][1]), env)
            raise Untranslatable("unknown variable `%s`" % name)
        if kind == "path":
            return self.path(e, env, k, want)
        if kind == "tuple":
            return self.tuple_(e[1], 0, [], env, k, want)
        if kind == "un":
            op = e[1]
            if op in ("*", ):
                return self.expr(e[2], env, k, want)
            if op == "!":
                return self.expr(e[2], env, lambda a, t, env: k("(negb %s)" % a, "bool", env) if t == "bool" else self.bad("bitwise not"), "bool")
            if op == "-":
                inner = e[2]
                while inner[0] == "paren":
                    inner = inner[1]
                if inner[0] == "int" and inner[2] is None:
                    w = resolve(want)
                    return k(zlit(-inner[1]), w if (is_int(w) or isinstance(w, TVar)) else "i32", env)
                def neg(a, t, env):
                    v = self.fresh("t")
                    return "let* %s := neg_c %s %s in\n  %s" % (v, self.cty(t), a, k(v, t, env))
                return self.expr(e[2], env, neg, want)
            raise Untranslatable("unary %s" % op)
        if kind == "ref":
            return self.expr(e[1], env, k, want)
        if kind == "cast":
            return self.cast(e, env, k)
        if kind == "bin":
            return self.binary(e, env, k, want)
        if kind == "try":
            return self.try_(e[1], env, k, want)
        if kind == "mcall":
            return self.mcall(e, env, k, want)
        if kind == "call":
            return self.call(e, env, k, want)
        if kind == "struct":
            return self.struct(e, env, k)
        if kind == "array":
            return self.array_lit(e[1], 0, [], env, k)
        if kind == "arrayrep" and e[2] == ("int", 8, None) and e[1][0] == "arrayrep" and e[1][2] == ("int", 8, None) and e[1][1][0] == "float" \
                and float(e[1][1][1]) == 0.0:
            # [[0.0f32; 8]; 8]: coefficients are integers of magnitude <= 2048, which binary32 holds exactly: the matrix is over Z
            return k("zero_mat", "fmat", env)
        if kind == "arrayrep" and e[1] == ("call", ("path", ["MotionVector", "zero"]), []) and e[2] == ("int", 4, None):
            return k("mv4_zero", ("mvarr", 4), env)
        if kind == "if":
            return self.if_expr(e, env, k, want)
        if kind == "iflet":
            return self.iflet(e, env, k, want)
        if kind == "match":
            return self.match_expr(e, env, k, want)
        if kind == "block":
            return self.block(e, env, k, want)
        if kind == "field":
            return self.field(e, env, k)
        if kind == "index":
            return self.index(e, env, k)
        if kind == "matches":
            return self.matches(e, env, k)
        if kind == "macro" and e[1] == "unreachable":
            return "Panic PAssert"
        if kind == "macro" and e[1] == "vec" and len(e[2]) == 1 and e[2][0][0] == "arrayrep" and e[2][0][1] == ("path", ["DecodedDctBlock", "Zero"]):
            return self.expr(e[2][0][2], env, lambda n, tn, env: k("(repeatZ DctZero %s)" % n, ("list", "DecodedDctBlock"), env), "usize")
        if kind == "return":
            return self.ret(e[1], env)
        if kind in ("break", "continue"):
            # inside the body of a translated `loop`: the body's result says whether to go on, with the loop variables as they are
            if self.loop_vars is None:
                raise Untranslatable("`%s` outside a translated loop" % kind)
            return "Ok (%s, (%s))" % ("true" if kind == "continue" else "false", ", ".join(env[v][0] for v in self.loop_vars))
        raise Untranslatable("expression kind %s" % kind)

    def bad(self, msg):
        raise Untranslatable(msg)

    # functions of the decoder that are translated / modelled on their own; a call stands for the model's function
    model_fns = {}
    gob_fields = set()
    static_lists = {}     # constant arrays of the file that the model has as generated tables: name -> (coq name, element type)
    ret_wrap = None       # inside the body of a `for` with early exits: how a `return` is handed to the loop combinator
    on_demand = None      # callback translating a helper function of the same file when a call of it is met
    loop_vars = None      # inside a `loop` body: the variables that live across iterations (the reader last)
    result_fns = {}       # functions whose Result is matched on rather than propagated with `?`

    def tvar_default(self):
        # an integer literal with no typed context: Rust falls back to i32
        return "i32"

    def tuple_(self, items, i, acc, env, k, want):
        if i == len(items):
            return k("(" + ", ".join(a for a, _ in acc) + ")", ("tup", tuple(t for _, t in acc)), env)
        w = resolve(want)
        wi = w[1][i] if isinstance(w, tuple) and w[0] == "tup" and i < len(w[1]) else None
        return self.expr(items[i], env, lambda a, t, env: self.tuple_(items, i + 1, acc + [(a, t)], env, k, want), wi)

    def array_lit(self, items, i, acc, env, k):
        if i == len(items):
            ts = [resolve(t) for _, t in acc]
            if all(t == "bool" for t in ts):
                return k("[" + "; ".join(a for a, _ in acc) + "]", ("list", "bool"), env)
            if all(t == "f32z" for t in ts):
                return k("[" + "; ".join(a for a, _ in acc) + "]", "frow", env)
            if all(t == "MotionVector" for t in ts):
                tup = acc[0][0]
                for a, _ in acc[1:]:
                    tup = "(%s, %s)" % (tup, a)
                return k(tup, ("mvarr", len(acc)), env)
            raise Untranslatable("array literal of %r" % (ts,))
        return self.expr(items[i], env, lambda a, t, env: self.array_lit(items, i + 1, acc + [(a, t)], env, k))

    def path(self, e, env, k, want):
        segs = e[1]
        if len(segs) == 2:
            ty, name = segs
            if ty == "HalfPel" and name in getattr(self, "halfpel_consts", {}):
                return k(zlit(self.halfpel_consts[name]), "HalfPel", env)
            if ty == "DecodedDctBlock" and name == "Zero":
                return k("DctZero", "DecodedDctBlock", env)
            if ty in FLAGS:
                return k(self.flag_const(ty, name), ty, env)
            if ty in ENUMS and name in ENUMS[ty]:
                if self.d.payload.get((ty, name)):
                    raise Untranslatable("constructor %s::%s without its payload" % (ty, name))
                return k(ENUMS[ty][name], ty, env)
            if ty in INTS and name in ("MAX", "MIN"):
                return k(zlit(INTS[ty][1 if name == "MAX" else 0]), ty, env)
        raise Untranslatable("path `%s`" % "::".join(segs))

    def cast(self, e, env, k):
        target = norm(e[2])
        if target == "f64":
            return self.expr(e[1], env, lambda a, t, env: k("(d_of_Z %s)" % a, "f64", env) if is_int(resolve(t)) else self.bad("cast of %r to f64" % (t,)))
        if not is_int(target):
            raise Untranslatable("cast to %r" % (target,))
        def after(a, t, env):
            t = resolve(t)
            if t == "f64":
                if target == "usize":
                    return k("(d_to_usize %s)" % a, target, env)
                raise Untranslatable("cast of f64 to %s" % target)
            if isinstance(t, TVar):
                # the source type is whatever the read delivered; casting fixes nothing about it: keep the wrap
                return k("(wrap %s %s)" % (COQTY[target], a), target, env)
            if not is_int(t):
                raise Untranslatable("cast from %r" % (t,))
            (slo, shi), (tlo, thi) = INTS[t], INTS[target]
            if tlo <= slo and shi <= thi:
                return k(a, target, env)
            return k("(wrap %s %s)" % (COQTY[target], a), target, env)
        inner = e[1]
        while inner[0] == "paren":
            inner = inner[1]
        if inner[0] == "int" and inner[2] is None:
            return k(zlit(inner[1]), target, env)
        return self.expr(e[1], env, after)

    def binary(self, e, env, k, want):
        op, l, r = e[1], e[2], e[3]
        if op in ("==", "!=") and r[0] == "float" and float(r[1]) == 0.0:
            def cmpz(a, t, env):
                if resolve(t) != "f32z":
                    raise Untranslatable("float comparison on %r" % (t,))
                return k("(%s =? 0)" % a if op == "==" else "(negb (%s =? 0))" % a, "bool", env)
            return self.expr(l, env, cmpz)
        if op == "&" and r[0] == "un" and r[1] == "!":
            return self.expr(l, env, lambda a, ta, env: self.expr(r[2], env, lambda b, tb, env:
                             (k("(Z.ldiff %s %s)" % (a, b), ta, env) if self.is_flags(resolve(ta)) and self.is_flags(resolve(tb)) else self.bad("`& !` on non-flags"))))
        if op in ("==", "!=") and r[0] == "call" and r[1] == ("var", "Some") and len(r[2]) == 1 and r[2][0][0] == "int":
            lit = r[2][0][1]
            def cmp(a, t, env):
                t = resolve(t)
                if not (isinstance(t, tuple) and t[0] == "opt" and is_int(resolve(t[1]))):
                    raise Untranslatable("comparison of %r with Some(literal)" % (t,))
                c = "(match %s with Some x_ => x_ =? %s | None => false end)" % (a, zlit(lit))
                return k(c if op == "==" else "(negb %s)" % c, "bool", env)
            return self.expr(l, env, cmp)
        if op in ("&&", "||"):
            if self.has_return(r):
                raise Untranslatable("`?` or return on the right of %s" % op)
            return self.expr(l, env, lambda a, ta, env: self.expr(r, env, lambda b, tb, env: k("(%s %s %s)" % (a, op, b), "bool", env), "bool"), "bool")
        def lit(x):
            while x[0] == "paren":
                x = x[1]
            return x[0] == "int" and x[2] is None
        if lit(l) and not lit(r):
            return self.expr(r, env, lambda b, tb, env: self.expr(l, env, lambda a, ta, env: self.binop(op, a, ta, b, tb, env, k), tb if not self.is_flags(resolve(tb)) else None))
        return self.expr(l, env, lambda a, ta, env: self.expr(r, env, lambda b, tb, env: self.binop(op, a, ta, b, tb, env, k),
                                                                 (ta if op not in ("<<", ">>") and not self.is_flags(resolve(ta)) else None)), want if op not in ("==", "!=", "<", "<=", ">", ">=") else None)

    def binop(self, op, a, ta, b, tb, env, k):
        ta, tb = resolve(ta), resolve(tb)
        if ta == "MotionVector" and tb == "MotionVector" and op == "+":
            return k("(mv_add %s %s)" % (a, b), "MotionVector", env)
        if ta == "HalfPel" and tb == "HalfPel" and op == "+":
            # impl Add for HalfPel: saturating addition, translated and bridged as a kernel (k_halfpel_add = hadd)
            return k("(hadd %s %s)" % (a, b), "HalfPel", env)
        if ta == "f64" and tb == "f64" and op == "/":
            return k("(ddiv %s %s)" % (a, b), "f64", env)
        if op in ("==", "!=", "<", "<=", ">", ">="):
            if ta == "bool" and tb == "bool":
                c = "(Bool.eqb %s %s)" % (a, b)
                return k(c if op == "==" else "(negb %s)" % c, "bool", env)
            if isinstance(ta, tuple) and ta[0] == "opt" and ta == tb and isinstance(resolve(ta[1]), tuple) and resolve(ta[1])[0] == "tup" \
                    and len(resolve(ta[1])[1]) == 2 and op in ("==", "!="):
                c = "(opt_pair_eqb %s %s)" % (a, b)
                return k(c if op == "==" else "(negb %s)" % c, "bool", env)
            if isinstance(ta, tuple) and ta[0] == "opt" or ta in ENUMS:
                raise Untranslatable("comparison of %r values" % (ta,))
            if not self.is_flags(ta):
                self.unify(ta, tb, "comparison")
            code = {"==": "(%s =? %s)" % (a, b), "!=": "(negb (%s =? %s))" % (a, b), "<": "(%s <? %s)" % (a, b),
                    "<=": "(%s <=? %s)" % (a, b), ">": "(%s <? %s)" % (b, a), ">=": "(%s <=? %s)" % (b, a)}[op]
            return k(code, "bool", env)
        if op in ("<<", ">>"):
            if self.is_flags(ta):
                raise Untranslatable("shift of a bit-flag value")
            if op == ">>":
                return k("(Z.shiftr %s %s)" % (a, b), ta, env)
            return k("(wrap %s (Z.shiftl %s %s))" % (self.cty(ta), a, b), ta, env)
        if op in ("&", "|", "^"):
            t = ta if self.is_flags(ta) else self.unify(ta, tb, "bit operation")
            fn = {"&": "Z.land", "|": "Z.lor", "^": "Z.lxor"}[op]
            return k("(%s %s %s)" % (fn, a, b), t, env)
        if op in ("+", "-", "*", "/", "%"):
            t = self.unify(ta, tb, "arithmetic")
            v = self.fresh("t")
            fn = {"+": "add_c", "-": "sub_c", "*": "mul_c", "/": "div_c", "%": "rem_c"}[op]
            return "let* %s := %s %s %s %s in\n  %s" % (v, fn, self.cty(t), a, b, k(v, t, env))
        raise Untranslatable("operator %s" % op)

    def field(self, e, env, k):
        if e[1] == ("var", "self") and ("self." + e[2]) in env:
            a, t = env["self." + e[2]]
            return k(a, t, env)
        def after(a, t, env):
            t = resolve(t)
            if t == "Picture":
                ft = dict(self.d.structs.get("Picture", []))
                if e[2] not in ft:
                    raise Untranslatable("field %s of Picture" % e[2])
                return k("(%s %s)" % (e[2], a), self.norm_field(ft[e[2]]), env)
            if isinstance(t, tuple) and t[0] == "tup" and e[2].isdigit() and len(t[1]) == 2:
                return k("(%s %s)" % ("fst" if e[2] == "0" else "snd", a), t[1][int(e[2])], env)
            if t == "Block" and e[2] in ("tcoef", "intradc"):
                return k("(%s %s)" % ({"tcoef": "tcoefs", "intradc": "intradc"}[e[2]], a), ("list", "TCoefficient") if e[2] == "tcoef" else ("opt", "IntraDc"), env)
            if t == "TCoefficient" and e[2] in ("run", "level", "is_short"):
                return k("(%s %s)" % ({"run": "t_run", "level": "t_level", "is_short": "is_short"}[e[2]], a), {"run": "u8", "level": "i16", "is_short": "bool"}[e[2]], env)
            if t == "CodedBlockPattern" and e[2] in ("codes_luma", "codes_chroma_b", "codes_chroma_r"):
                return k("(%s %s)" % (e[2], a), ("boolarr", 4) if e[2] == "codes_luma" else "bool", env)
            raise Untranslatable("field access .%s on %r" % (e[2], t))
        return self.expr(e[1], env, after)

    def index(self, e, env, k):
        # m[y][x] / m[y] on the 8x8 matrix with literal indices
        if e[1][0] == "index" and e[1][1][0] == "var" and e[1][1][1] in env and resolve(env[e[1][1][1]][1]) == "fmat" \
                and e[2][0] == "int" and e[1][2][0] == "int" and 0 <= e[2][1] < 8 and 0 <= e[1][2][1] < 8:
            return k("(mat_get %s %d %d)" % (env[e[1][1][1]][0], e[2][1], e[1][2][1]), "f32z", env)
        if e[1][0] == "var" and e[1][1] in env and resolve(env[e[1][1]][1]) == "fmat" and e[2][0] == "int" and 0 <= e[2][1] < 8:
            return k("(nth %d %s [])" % (e[2][1], env[e[1][1]][0]), "frow", env)
        def on_base(a, t, env):
            t = resolve(t)
            if isinstance(t, tuple) and t[0] == "static_list":
                def on_sidx(i, ti, env):
                    v = self.fresh("e")
                    return "let* %s := get %s %s in\n  %s" % (v, a, i, k(v, t[1], env))
                return self.expr(e[2], env, on_sidx, "usize")
            if isinstance(t, tuple) and t[0] == "boolarr" and e[2][0] == "int" and 0 <= e[2][1] < t[1]:
                # a literal index into a fixed-size array cannot go out of bounds
                return k("(nth %d %s false)" % (e[2][1], a), "bool", env)
            if isinstance(t, tuple) and t[0] == "list" and e[2][0] == "range" and e[2][1] is not None and e[2][2] is None:
                def on_from(i, ti, env):
                    v = self.fresh("sl")
                    return "let* %s := slice_from %s %s in\n  %s" % (v, a, i, k(v, t, env))
                return self.expr(e[2][1], env, on_from, "usize")
            def on_idx(i, ti, env):
                v = self.fresh("e")
                if isinstance(t, tuple) and t[0] == "mvarr" and t[1] == 4:
                    return "let* %s := tup4_get %s %s in\n  %s" % (v, a, i, k(v, "MotionVector", env))
                if isinstance(t, tuple) and t[0] == "list":
                    return "let* %s := get %s %s in\n  %s" % (v, a, i, k(v, t[1], env))
                raise Untranslatable("indexing into %r" % (t,))
            return self.expr(e[2], env, on_idx, "usize")
        return self.expr(e[1], env, on_base)

    def norm_field(self, t):
        t = norm(t)
        return t

    # ---- the reader and `?`
    def reader_call(self, m, env, want):
        """m = mcall on the reader; returns (code of the call, result type, kind) with kind in value+reader / reader / value"""
        name, args = m[2], m[3]
        fish = m[4] if len(m) > 4 else None
        r = env["$reader"][0]
        if name == "read_bits" and len(args) == 1:
            t = norm(fish[0]) if fish else (resolve(want) if (is_int(resolve(want)) or isinstance(resolve(want), TVar)) else self.tvar())
            return ("n", args[0], lambda n: "read_bits %s %s %s" % (self.width(t), n, r), t, "vr")
        if name == "read_u8" and not args:
            return (None, None, lambda n: "read_u8 %s" % r, "u8", "vr")
        if name == "skip_bits" and len(args) == 1:
            return ("n", args[0], lambda n: "skip_bits %s %s" % (n, r), "unit", "r")
        if name == "recognize_start_code" and len(args) == 1:
            return ("n", args[0], lambda n: "recognize_start_code %s %s" % (n, r), ("opt", "u32"), "v")
        if name == "read_signed_bits" and len(args) == 1:
            t = norm(fish[0]) if fish else (resolve(want) if (is_int(resolve(want)) or isinstance(resolve(want), TVar)) else self.tvar())
            return ("n", args[0], lambda n: "read_signed_bits %s %s %s" % (self.width(t), n, r), t, "vr")
        if name == "read_umv" and not args:
            return (None, None, lambda n: "read_umv %s" % r, "HalfPel", "vr")
        if name == "read_vlc" and len(args) == 1:
            t = args[0]
            while t[0] in ("ref", "paren"):
                t = t[1]
            if t[0] == "index" and t[2][0] == "range":
                t = t[1]
            if t[0] == "var" and t[1] in VLC_TABLES:
                tab, ty = VLC_TABLES[t[1]]
                return (None, None, lambda n: "read_vlc %s %s" % (tab, r), ty, "vr")
            raise Untranslatable("read_vlc on %r" % (t,))
        raise Untranslatable("reader method .%s()" % name)

    def try_(self, inner, env, k, want):
        # reader.op(..)?   f(reader, ..)?   opt.ok_or(Error::X)?
        if inner[0] == "mcall" and inner[1][0] == "var" and inner[1][1] in ("reader",):
            argkind, arg, mk, t, kind = self.reader_call(inner, env, want)
            def emit(n, env):
                v = self.fresh("v")
                if kind == "vr":
                    r2 = self.fresh("r")
                    env2 = dict(env); env2["$reader"] = (r2, "reader")
                    return "let* (%s, %s) := %s in\n  %s" % (v, r2, mk(n), k(v, t, env2))
                if kind == "r":
                    r2 = self.fresh("r")
                    env2 = dict(env); env2["$reader"] = (r2, "reader")
                    return "let* %s := %s in\n  %s" % (r2, mk(n), k("tt", "unit", env2))
                return "let* %s := %s in\n  %s" % (v, mk(n), k(v, t, env))
            if argkind is None:
                return emit(None, env)
            return self.expr(arg, env, lambda n, tn, env: emit(n, env), "u32")
        if inner[0] == "mcall" and inner[2] == "ok_or" and len(inner[3]) == 1:
            err = self.error_of(inner[3][0])
            def after(a, t, env):
                t = resolve(t)
                if not (isinstance(t, tuple) and t[0] == "opt"):
                    raise Untranslatable(".ok_or on %r" % (t,))
                v = self.fresh("v")
                return "match %s with\n  | None => Err %s\n  | Some %s =>\n  %s\n  end" % (a, err, v, k(v, t[1], env))
            return self.expr(inner[1], env, after)
        if inner[0] == "call" and inner[1][0] == "var" and inner[1][1] not in self.known and self.on_demand is not None \
                and inner[2] and inner[2][0] == ("var", "reader"):
            # a private helper of the same file that takes the reader: translated on demand, emitted in front of its caller
            try:
                self.on_demand(inner[1][1])
            except Untranslatable:
                pass          # the cases below (decode_pei, ..) or the final error apply
        if inner[0] == "call" and inner[1][0] == "var" and inner[1][1] in self.known:
            cname, ptys, rty = self.known[inner[1][1]]
            args = inner[2]
            if not args or args[0] != ("var", "reader"):
                raise Untranslatable("call of %s without the reader first" % inner[1][1])
            def go(i, acc, env):
                if i == len(args):
                    v, r2 = self.fresh("v"), self.fresh("r")
                    env2 = dict(env); env2["$reader"] = (r2, "reader")
                    return "let* (%s, %s) := %s %s %s in\n  %s" % (v, r2, cname, " ".join(acc), env["$reader"][0], k(v, rty, env2))
                return self.expr(args[i], env, lambda a, t, env: go(i + 1, acc + [a], env), ptys[i - 1])
            return go(1, [], env)
        if inner[0] == "mcall" and inner[1] == ("var", "self") and inner[2] == "parse_picture" and len(inner[3]) == 2 and inner[3][0] == ("var", "reader"):
            # H263State::parse_picture is `decode_picture(reader, self.decoder_options, previous_picture)`; decode_picture is
            # translated and bridged on its own (bridge_p_decode_picture), the model's function stands for it here
            def pp(a, t, env):
                v, r2 = self.fresh("v"), self.fresh("r")
                env2 = dict(env); env2["$reader"] = (r2, "reader")
                return "let* (%s, %s) := decode_picture (st_opts %s) %s %s in\n  %s" % (v, r2, env["self"][0], a, env["$reader"][0], k(v, ("opt", "Picture"), env2))
            return self.expr(inner[3][1], env, pp)
        if inner[0] == "call" and inner[1] == ("var", "decode_pei") and inner[2] == [("var", "reader")]:
            # the PEI / PSUPP loop is not translated: the model's fuelled recursion stands for it
            v, r2 = self.fresh("v"), self.fresh("r")
            env2 = dict(env); env2["$reader"] = (r2, "reader")
            r = env["$reader"][0]
            return "let* (%s, %s) := decode_pei (S (length (rbits %s))) [] %s in\n  %s" % (v, r2, r, r, k(v, ("vec", "u8"), env2))
        raise Untranslatable("`?` applied to %s" % inner[0])

    def error_of(self, e):
        if e[0] == "path" and len(e[1]) == 2 and e[1][0] == "Error" and e[1][1] in ERRORS:
            return ERRORS[e[1][1]]
        raise Untranslatable("error value %r" % (e,))

    # ---- calls, constructors
    def call(self, e, env, k, want):
        f, args = e[1], e[2]
        if f[0] == "var" and f[1] == "Some" and len(args) == 1:
            w = resolve(want)
            return self.expr(args[0], env, lambda a, t, env: k("(Some %s)" % a, ("opt", t), env), w[1] if isinstance(w, tuple) and w[0] == "opt" else None)
        if f[0] == "var" and f[1] in ("Ok", "Err"):
            raise Untranslatable("Result value outside return position")
        if f[0] == "var" and self.pure and f[1] in self.known and self.known[f[1]][0] != "static":
            cname, _, rty = self.known[f[1]]
            def go(i, acc, env):
                if i == len(args):
                    v = self.fresh("v")
                    return "let* %s := %s %s in\n  %s" % (v, cname, " ".join(acc), k(v, rty, env))
                return self.expr(args[i], env, lambda a, t, env: go(i + 1, acc + [a], env))
            return go(0, [], env)
        if f[0] == "var" and f[1] in self.result_fns and args and args[0] == ("var", "reader"):
            cname, rty = self.result_fns[f[1]]
            def go(i, acc, env):
                if i == len(args):
                    return k("@RES@%s %s %s" % (cname, " ".join(acc), env["$reader"][0]), ("result", rty), env)
                return self.expr(args[i], env, lambda a, t, env: go(i + 1, acc + [a], env))
            return go(1, [], env)
        if f[0] == "var" and f[1] in self.model_fns:
            cname, kind, rty = self.model_fns[f[1]]
            def go(i, acc, env):
                if i == len(args):
                    if kind == "pure":
                        return k("(%s %s)" % (cname, " ".join(acc)), rty, env)
                    v = self.fresh("v")
                    return "let* %s := %s %s in\n  %s" % (v, cname, " ".join(acc), k(v, rty, env))
                return self.expr(args[i], env, lambda a, t, env: go(i + 1, acc + [a], env))
            return go(0, [], env)
        if f[0] == "path" and f[1] == ["MotionVector", "zero"] and not args:
            return k("mv_zero", "MotionVector", env)
        if f[0] == "path" and f[1] == ["Vec", "with_capacity"] and len(args) == 1:
            # the capacity expression is evaluated (it can overflow); the vector starts empty
            return self.expr(args[0], env, lambda n, tn, env: k("[]", ("list", None), env), "usize")
        if f[0] == "path" and f[1] == ["DecodedPicture", "new"] and len(args) == 2:
            # DecodedPicture::new: the plane sizes are translated and bridged as kernels (BridgeKPicture.v); the model's new_decoded
            return self.expr(args[0], env, lambda a, ta, env: self.expr(args[1], env, lambda b, tb, env: k("(new_decoded %s %s)" % (a, b), ("opt", "DecodedPicture"), env)))
        if f[0] == "path" and len(f[1]) == 2 and f[1][0] == "DecodedDctBlock" and f[1][1] in ("Dc", "Horiz", "Vert", "Full") and len(args) == 1:
            ctor = {"Dc": "DctDc", "Horiz": "DctHoriz", "Vert": "DctVert", "Full": "DctFull"}[f[1][1]]
            return self.expr(args[0], env, lambda a, t, env: k("(%s %s)" % (ctor, a), "DecodedDctBlock", env), "f32z" if f[1][1] == "Dc" else None)
        if f[0] == "path" and f[1] == ["HashMap", "new"] and not args:
            return k("[]", "PictureMap", env)
        if f[0] == "path" and f[1] == ["Vec", "new"] and not args:
            return k("[]", ("vec", EVar()), env)
        if f[0] == "path" and f[1] == ["IntraDc", "from_u8"] and len(args) == 1:
            # IntraDc::from_u8 is translated and bridged as a kernel (k_intradc_from_u8 = intradc_from_u8)
            return self.expr(args[0], env, lambda a, t, env: k("(intradc_from_u8 %s)" % a, ("opt", "IntraDc"), env), "u8")
        if f[0] == "path" and f[1] == ["HalfPel", "from"] and len(args) == 1:
            return self.expr(args[0], env, lambda a, t, env: k(a, "HalfPel", env) if resolve(t) == "HalfPel" else self.bad("HalfPel::from(%r)" % (t,)))
        if f[0] == "path" and len(f[1]) == 2:
            ty, name = f[1]
            if ty in FLAGS and name == "empty" and not args:
                return k("0", ty, env)
            if ty in ENUMS and name in ENUMS[ty]:
                pl = self.d.payload.get((ty, name))
                if not pl or len(pl) != len(args):
                    raise Untranslatable("payload of %s::%s" % (ty, name))
                def go(i, acc, env):
                    if i == len(args):
                        return k("(%s %s)" % (ENUMS[ty][name], " ".join(acc)), ty, env)
                    pt = norm(pl[i])
                    def after(a, t, env):
                        t = resolve(t)
                        if pt in self.d.structs and isinstance(t, tuple) and t[0] == "structval":
                            return go(i + 1, acc + list(t[2]), env)      # struct payload flattened into the constructor's arguments
                        if pt in self.d.structs and t == pt:
                            n = len(self.d.structs[pt])
                            names = [self.fresh("f") for _ in range(n)]
                            pat = names[0]
                            for nm in names[1:]:
                                pat = "(%s, %s)" % (pat, nm)
                            inner = go(i + 1, acc + names, env)
                            return "let '%s := %s in\n  %s" % (pat, a, inner)
                        self.unify(t, pt, "payload of %s::%s" % (ty, name))
                        return go(i + 1, acc + [a], env)
                    return self.expr(args[i], env, after, pt if is_int(pt) else None)
                return go(0, [], env)
        raise Untranslatable("call of %r" % (f,))

    def struct(self, e, env, k):
        segs, fields = e[1], e[2]
        if len(segs) == 2 and segs[0] in ENUMS and segs[1] in ENUMS[segs[0]] and segs != ["Macroblock", "Coded"]:
            pl = self.d.payload.get((segs[0], segs[1]))
            if not pl or not isinstance(pl[0], tuple) or [f for f, _ in pl] != [f for f, _ in fields]:
                raise Untranslatable("fields of %s::%s" % tuple(segs))
            def go(i, acc, env):
                if i == len(fields):
                    return k("(%s %s)" % (ENUMS[segs[0]][segs[1]], " ".join(acc)), segs[0], env)
                ft = norm(pl[i][1])
                return self.expr(fields[i][1], env, lambda a, t, env: (self.unify(t, ft, "field"), go(i + 1, acc + [a], env))[1], ft)
            return go(0, [], env)
        if segs == ["Macroblock", "Coded"]:
            given = dict(fields)
            order = ["mb_type", "coded_block_pattern", "d_quantizer", "motion_vector", "addl_motion_vectors"]
            ignored = {"coded_block_pattern_b", "motion_vectors_b"}      # parsed for their bits only: the model drops them
            if set(given) != set(order) | ignored:
                raise Untranslatable("fields of Macroblock::Coded")
            def go(i, acc, env):
                if i == len(order):
                    return k("(MbCoded %s)" % " ".join(acc), "Macroblock", env)
                return self.expr(given[order[i]], env, lambda a, t, env: go(i + 1, acc + [a], env))
            return go(0, [], env)
        name = segs[-1]
        if name in ("TCoefficient", "Block"):
            given = dict(fields)
            order = {"TCoefficient": ["is_short", "run", "level"], "Block": ["intradc", "tcoef"]}[name]
            ctor = {"TCoefficient": "mkTcoef", "Block": "mkBlock"}[name]
            decl = dict(self.d.structs.get(name, []))
            if set(given) != set(order) or set(decl) != set(order):
                raise Untranslatable("fields of %s" % name)
            def go(i, acc, env):
                if i == len(order):
                    return k("(%s %s)" % (ctor, " ".join(acc)), name, env)
                ft = norm(decl[order[i]])
                def after(a, t, env):
                    tt = resolve(t)
                    if is_int(ft) or isinstance(tt, TVar):
                        self.unify(t, ft, "field %s.%s" % (name, order[i]))
                    return go(i + 1, acc + [a], env)
                return self.expr(given[order[i]], env, after, ft if is_int(ft) else None)
            return go(0, [], env)
        if name == "CodedBlockPattern":
            given = dict(fields)
            order = ["codes_luma", "codes_chroma_b", "codes_chroma_r"]
            if set(given) != set(order):
                raise Untranslatable("fields of CodedBlockPattern")
            def go(i, acc, env):
                if i == len(order):
                    return k("(mkCbp %s)" % " ".join(acc), "CodedBlockPattern", env)
                return self.expr(given[order[i]], env, lambda a, t, env: go(i + 1, acc + [a], env))
            return go(0, [], env)
        if name not in self.d.structs:
            raise Untranslatable("struct %s" % name)
        decl = self.d.structs[name]
        given = dict(fields)
        if set(given) != set(f for f, _ in decl):
            raise Untranslatable("struct literal %s does not list exactly the declared fields" % name)
        def go(i, acc, env):
            if i == len(decl):
                if name == "Picture":
                    m = dict(zip([f for f, _ in decl], acc))
                    order = ["version", "temporal_reference", "format", "options", "has_plusptype", "has_opptype", "picture_type",
                             "motion_vector_range", "slice_submode", "scalability_layer", "reference_picture_selection_mode",
                             "prediction_reference", "quantizer", "multiplex_bitstream", "pb_reference", "pb_quantizer", "extra"]
                    return k("(mkPicture %s)" % " ".join(m[f] for f in order), "Picture", env)
                tup = acc[0]
                for a in acc[1:]:
                    tup = "(%s, %s)" % (tup, a)
                return k(tup, ("structval", name, tuple(acc)), env)
            fn, ft = decl[i]
            ftn = norm(ft)
            def after(a, t, env):
                t = resolve(t)
                if isinstance(t, tuple) and t[0] == "structval":
                    t = t[1]
                try:
                    self.unify(t, ftn, "field %s.%s" % (name, fn))
                except Untranslatable:
                    if not (ftn == t or (isinstance(ftn, tuple) and ftn[0] == "opt" and isinstance(t, tuple) and t[0] == "opt")):
                        raise
                return go(i + 1, acc + [a], env)
            return self.expr(given[fn], env, after, ftn)
        return go(0, [], env)

    def mcall(self, e, env, k, want):
        recv, name, args = e[1], e[2], e[3]
        if recv[0] == "var" and recv[1] == "reader":
            raise Untranslatable("reader operation without `?`")
        # list.get(i).map(|x| BODY).unwrap_or(d) with a BODY that can panic (an index): a match on nth_error
        if name == "unwrap_or" and len(args) == 1 and recv[0] == "mcall" and recv[2] == "map" and recv[3][0][0] == "closure" \
                and recv[1][0] == "mcall" and recv[1][2] == "get" and len(recv[1][3]) == 1:
            clo = recv[3][0]
            pv = clo[1][0][1]
            def on_list(a, t, env):
                t = resolve(t)
                if not (isinstance(t, tuple) and t[0] == "list"):
                    raise Untranslatable(".get on %r" % (t,))
                def on_i(i, ti, env):
                    def on_d(d, td, env):
                        x = self.fresh(pv)
                        kname, vars_, params, envk = self.join([], env, None)
                        vp = self.fresh("x")
                        body = k(vp, td, envk)
                        callf = self.lift(kname, [(vp, td)], [], [], env, body)
                        env2 = dict(env); env2[pv] = (x, t[1])
                        s_code = self.expr(clo[2], env2, lambda b, tb, env3: callf([b], env3))
                        return "match nth_error %s (Z.to_nat %s) with\n  | Some %s => (%s)\n  | None => (%s)\n  end" % (a, i, x, s_code, callf([d], env))
                    return self.expr(args[0], env, on_d)
                return self.expr(recv[1][3][0], env, on_i, "usize")
            return self.expr(recv[1][1], env, on_list)
        # prev.map(|p| p.options).unwrap_or_else(PictureOption::empty)  /  .map(|p| ..).unwrap_or(d)
        if name in ("unwrap_or_else", "unwrap_or") and len(args) == 1 and recv[0] == "mcall" and recv[2] == "map" and recv[3][0][0] == "closure":
            clo = recv[3][0]
            if len(clo[1]) != 1 or clo[1][0][0] != "pid":
                raise Untranslatable("closure parameters")
            pv = clo[1][0][1]
            def after(a, t, env):
                t = resolve(t)
                if not (isinstance(t, tuple) and t[0] == "opt"):
                    raise Untranslatable(".map on %r" % (t,))
                v = self.fresh(pv)
                env2 = dict(env); env2[pv] = (v, t[1])
                holder = {}
                def kbody(b, tb, env3):
                    holder["t"] = tb
                    return b
                body = self.expr(clo[2], env2, kbody)
                if "\n" in body or "let*" in body:
                    raise Untranslatable("effects inside a closure")
                dflt = args[0]
                if name == "unwrap_or_else":
                    if dflt[0] == "path" and len(dflt[1]) == 2 and dflt[1][1] == "empty" and dflt[1][0] in FLAGS:
                        d, td = "0", dflt[1][0]
                    else:
                        raise Untranslatable("unwrap_or_else argument")
                    return k("(match %s with Some %s => %s | None => %s end)" % (a, v, body, d), holder["t"], env)
                return self.expr(dflt, env, lambda d, td, env: k("(match %s with Some %s => %s | None => %s end)" % (a, v, body, d), holder["t"], env), holder["t"])
            return self.expr(recv[1], env, after)
        if name == "push" and len(args) == 1 and recv[0] == "var" and recv[1] in env and isinstance(resolve(env[recv[1]][1]), tuple) and resolve(env[recv[1]][1])[0] == "list":
            vname = recv[1]
            def pushed_l(a, t, env):
                v = self.fresh(vname)
                env2 = dict(env); env2[vname] = (v, env[vname][1])
                return "let %s := (%s ++ [%s]) in\n  %s" % (v, env[vname][0], a, k("tt", "unit", env2))
            return self.expr(args[0], env, pushed_l)
        if name == "push" and len(args) == 1 and recv[0] == "var" and recv[1] in env and isinstance(resolve(env[recv[1]][1]), tuple) and resolve(env[recv[1]][1])[0] == "vec":
            vname = recv[1]
            old, told = env[vname]
            def pushed(a, t, env):
                tt = resolve(t)
                if isinstance(tt, tuple) and tt[0] == "structval":
                    tt = tt[1]
                v = self.fresh(vname)
                tv = resolve(env[vname][1])
                if isinstance(tv[1], EVar) and tv[1].ty is None:
                    tv[1].ty = tt
                env2 = dict(env); env2[vname] = (v, env[vname][1])
                return "let %s := (%s ++ [%s]) in\n  %s" % (v, env[vname][0], a, k("tt", "unit", env2))
            return self.expr(args[0], env, pushed)
        if name == "into" and not args:
            def into(a, t, env):
                t = resolve(t)
                if t == "u16" and resolve(want) == "usize":
                    return k(a, "usize", env)
                if t == "i16":
                    return k(a, "f32z", env)          # i16 -> f32 is exact: the float coefficient is the integer
                if t == ("tup", ("HalfPel", "HalfPel")):
                    return k(a, "MotionVector", env)
                if t == "MotionVector":
                    return k(a, ("tup", ("HalfPel", "HalfPel")), env)
                raise Untranslatable(".into() on %r" % (t,))
            return self.expr(recv, env, into)
        if name == "map" and len(args) == 1 and args[0][0] == "closure" and len(args[0][1]) == 1 and args[0][1][0][0] == "pid":
            clo = args[0]
            pv = clo[1][0][1]
            def mapped(a, t, env):
                t = resolve(t)
                if not (isinstance(t, tuple) and t[0] == "opt"):
                    raise Untranslatable(".map on %r" % (t,))
                v = self.fresh(pv)
                env2 = dict(env); env2[pv] = (v, t[1])
                h = {}
                def cap(b, tb, env3):
                    h["t"] = tb
                    return b
                body = self.expr(clo[2], env2, cap)
                if "\n" in body:
                    raise Untranslatable("effects inside a closure")
                return k("(match %s with Some %s => Some %s | None => None end)" % (a, v, body), ("opt", h["t"]), env)
            return self.expr(recv, env, mapped)
        if recv == ("var", "self") and name in ("get_last_picture", "get_reference_picture") and not args and "self" in env:
            # translated and bridged on their own (p_get_last_picture = Ok (get_last_picture s))
            return k("(%s %s)" % (name, env["self"][0]), ("opt", "DecodedPicture"), env)
        if recv == ("var", "self") and name == "is_sorenson" and not args and "self.decoder_options" in env:
            # H263State::is_sorenson is `self.decoder_options.contains(DecoderOption::SORENSON_SPARK_BITSTREAM)`
            return k("(sorenson %s)" % env["self.decoder_options"][0], "bool", env)
        def after(a, t, env):
            t = resolve(t)
            if t == "Error" and not args and name in ("is_macroblock_error", "is_eof_error", "is_gob_error"):
                # the three classifications of h263::Error are the model's functions of (almost) the same names
                return k("(%s %s)" % ({"is_macroblock_error": "is_macroblock_error", "is_eof_error": "is_eof", "is_gob_error": "is_gob_error"}[name], a), "bool", env)
            if t == "SourceFormat" and name == "into_width_and_height" and not args:
                return k("(into_width_and_height %s)" % a, ("opt", ("tup", ("u16", "u16"))), env)
            if t == "f64" and name == "ceil" and not args:
                return k("(dceil %s)" % a, "f64", env)
            if isinstance(t, str) and (t, name) in ENUM_METHODS and not args:
                return k("(%s %s)" % (ENUM_METHODS[(t, name)], a), "bool", env)
            if t == "MotionVector" and name == "average_sum_of_mvs" and not args:
                v = self.fresh("s")
                return "let %s := %s in\n  %s" % (v, a, k("(average_sum_of_mvs (fst %s), average_sum_of_mvs (snd %s))" % (v, v), "MotionVector", env))
            if t == "DecodedPicture" and name in ("luma_samples_per_row", "chroma_samples_per_row", "as_luma", "as_chroma_b", "as_chroma_r") and not args:
                fn, ty = {"luma_samples_per_row": ("d_width", "usize"), "chroma_samples_per_row": ("d_chroma_w", "usize"),
                          "as_luma": ("d_luma", "Plane"), "as_chroma_b": ("d_cb", "Plane"), "as_chroma_r": ("d_cr", "Plane")}[name]
                return k("(%s %s)" % (fn, a), ty, env)
            if t == "DecodedPicture" and name in ("as_luma_mut", "as_chroma_b_mut", "as_chroma_r_mut") and not args and recv[0] == "var":
                return k("@PLANE:%s:%s@" % (recv[1], {"as_luma_mut": "luma", "as_chroma_b_mut": "cb", "as_chroma_r_mut": "cr"}[name]), "PlaneMut", env)
            if t == "HalfPel" and name == "is_mv_within_range" and len(args) == 1:
                return self.expr(args[0], env, lambda b, tb, env: k("(is_mv_within_range %s %s)" % (a, b), "bool", env))
            if t == "HalfPel" and name == "invert" and not args:
                return k("(invert %s)" % a, "HalfPel", env)
            if t == "PictureMap" and name == "get" and len(args) == 1:
                return self.expr(args[0], env, lambda kk, tk, env: k("(pm_get %s %s)" % (a, kk), ("opt", "DecodedPicture"), env))
            if t == "DecodedPicture" and name == "as_header" and not args:
                return k("(d_header %s)" % a, "Picture", env)
            if t == "DecodedPicture" and name == "format" and not args:
                return k("(d_format %s)" % a, "SourceFormat", env)
            if name == "is_empty" and not args and isinstance(t, tuple) and t[0] == "list":
                return k("(match %s with [] => true | _ => false end)" % a, "bool", env)
            if name == "iter" and not args and isinstance(t, tuple) and t[0] == "list":
                return k(a, t, env)
            if name == "len" and not args and isinstance(t, tuple) and t[0] == "static_list":
                return k("(zlength %s)" % a, "usize", env)
            if t == "IntraDc" and name == "into_level" and not args:
                # IntraDc::into_level is translated and bridged as a kernel (k_intradc_into_level = intradc_level)
                return k("(intradc_level %s)" % a, "i16", env)
            if name == "into" and not args and t == "i16" and resolve(want) in (None, "f32z"):
                # i16 -> f32 is exact (|v| < 2^24): the float coefficient is the integer
                return k(a, "f32z", env)
            if name in ("max", "min") and len(args) == 1 and is_int(t):
                return self.expr(args[0], env, lambda b, tb, env: k("(Z.%s %s %s)" % (name, a, b), t, env), t)
            if name == "abs" and not args and is_int(t):
                v = self.fresh("t")
                return "let* %s := abs_c %s %s in\n  %s" % (v, COQTY[t], a, k(v, t, env))
            if name == "signum" and not args and is_int(t):
                return k("(Z.sgn %s)" % a, t, env)
            if name == "len" and not args and isinstance(t, tuple) and t[0] == "list":
                return k("(zlength %s)" % a, "usize", env)
            if name == "capacity" and not args and isinstance(t, tuple) and t[0] == "list" and recv[0] == "var" and (recv[1] + ".capacity") in env:
                return k(env[recv[1] + ".capacity"][0], "usize", env)
            if name == "into" and not args and t == "u16" and resolve(want) == "usize":
                return k(a, "usize", env)
            if name == "saturating_sub" and len(args) == 1 and is_int(t):
                lo, hi = INTS[t]
                return self.expr(args[0], env, lambda b, tb, env: k("(clamp %s %s (%s - %s))" % (zlit(lo), zlit(hi), a, b), t, env), t)
            def litv(x):
                while x[0] == "paren":
                    x = x[1]
                if x[0] == "int":
                    return x[1]
                if x[0] == "un" and x[1] == "-" and x[2][0] == "int":
                    return -x[2][1]
                return None
            if name == "clamp" and len(args) == 2 and is_int(t) and litv(args[0]) is not None and litv(args[1]) is not None and litv(args[0]) <= litv(args[1]):
                return k("(clamp %s %s %s)" % (zlit(litv(args[0])), zlit(litv(args[1])), a), t, env)
            if t == "MotionVector" and name == "median_of" and len(args) == 2:
                # MotionVector::median_of is the component-wise HalfPel::median_of (translated and bridged as a kernel)
                return self.expr(args[0], env, lambda b, tb, env: self.expr(args[1], env, lambda c, tc, env: k("(mv_median %s %s %s)" % (a, b, c), "MotionVector", env)))
            if name == "contains" and len(args) == 1:
                c = args[0]
                while c[0] in ("ref", "paren"):
                    c = c[1]
                if t == "DecoderOption":
                    if c == ("path", ["DecoderOption", "SORENSON_SPARK_BITSTREAM"]):
                        return k("(sorenson %s)" % a, "bool", env)
                    if c == ("path", ["DecoderOption", "USE_SCALABILITY_MODE"]):
                        return k("(scalability %s)" % a, "bool", env)
                    raise Untranslatable("DecoderOption flag")
                if self.is_flags(t):
                    return self.expr(c, env, lambda b, tb, env: k("(has %s %s)" % (a, b), "bool", env))
            if isinstance(t, tuple) and t[0] == "opt":
                if name == "is_some" and not args:
                    return k("(match %s with Some _ => true | None => false end)" % a, "bool", env)
                if name == "is_none" and not args:
                    return k("(match %s with Some _ => false | None => true end)" % a, "bool", env)
                if name == "unwrap_or" and len(args) == 1:
                    return self.expr(args[0], env, lambda d, td, env: k("(match %s with Some x => x | None => %s end)" % (a, d), t[1], env), t[1])
                if name == "unwrap_or_else" and len(args) == 1 and args[0] == ("path", ["MotionVector", "zero"]) and resolve(t[1]) == "MotionVector":
                    return k("(match %s with Some x => x | None => mv_zero end)" % a, "MotionVector", env)
                if name == "unwrap" and not args:
                    v = self.fresh("u")
                    return "match %s with\n  | None => Panic PAssert\n  | Some %s =>\n  %s\n  end" % (a, v, k(v, t[1], env))
            raise Untranslatable("method .%s() on %r" % (name, t))
        return self.expr(recv, env, after)

    def matches(self, e, env, k):
        subject, pat, guard = e[1], e[2], e[3]
        # matches!(x, Enum::A | Enum::B)
        alts = pat[1] if pat[0] == "por" else [pat]
        if guard is None and all(p[0] == "ppath" and len(p[1]) == 2 and p[1][0] in ENUMS for p in alts):
            def after(a, t, env):
                arms = " | ".join(ENUMS[p[1][0]][p[1][1]] for p in alts)
                return k("(match %s with %s => true | _ => false end)" % (a, arms), "bool", env)
            return self.expr(subject, env, after)
        if guard is None and pat[0] == "pctor" and pat[1] == ["Some"] and len(pat[2]) == 1 and pat[2][0][0] == "ppath" \
                and len(pat[2][0][1]) == 2 and pat[2][0][1][0] in ENUMS:
            en, va = pat[2][0][1]
            return self.expr(subject, env, lambda a, t, env: k("(match %s with Some %s => true | _ => false end)" % (a, ENUMS[en][va]), "bool", env))
        # matches!((&a, &b), (Some(x), Some(y)) if x != y)  on two optional formats
        while subject[0] == "paren":
            subject = subject[1]
        if subject[0] == "tuple" and len(subject[1]) == 2 and pat[0] == "ptuple" and len(pat[1]) == 2 and guard is not None \
                and all(p[0] == "pctor" and p[1] == ["Some"] and p[2][0][0] == "pid" for p in pat[1]):
            x, y = pat[1][0][2][0][1], pat[1][1][2][0][1]
            g = guard
            while g[0] == "paren":
                g = g[1]
            if g[0] == "bin" and g[1] in ("!=", "==") and {g[2], g[3]} == {("var", x), ("var", y)}:
                def a1(a, ta, env):
                    def a2(b, tb, env):
                        ta2, tb2 = resolve(ta), resolve(tb)
                        if not (isinstance(ta2, tuple) and ta2[0] == "opt" and ta2[1] == "SourceFormat" and isinstance(tb2, tuple) and tb2[0] == "opt"):
                            raise Untranslatable("matches! on %r, %r" % (ta2, tb2))
                        eq = "(format_eqb %s %s)" % (a, b)
                        body = "(negb %s)" % eq if g[1] == "!=" else eq
                        return k("(match %s, %s with Some _, Some _ => %s | _, _ => false end)" % (a, b, body), "bool", env)
                    return self.expr(subject[1][1], env, a2)
                return self.expr(subject[1][0], env, a1)
        raise Untranslatable("matches! with this pattern")

    # ---- control flow
    def block(self, blk, env, k, want=None):
        if blk[0] != "block":
            return self.expr(blk, env, k, want)
        return self.stmts(blk[1], 0, blk[2], env, k, want)

    def stmts(self, ss, i, tail, env, k, want):
        if i == len(ss):
            if tail is None:
                return k("tt", "unit", env)
            if tail[0] == "if" and tail[3] is None:
                return self.if_stmt(tail, env, lambda env: k("tt", "unit", env))
            return self.expr(tail, env, k, want)
        s = ss[i]
        rest = lambda env: self.stmts(ss, i + 1, tail, env, k, want)
        kind = s[0]
        if kind == "let" and s[1][0] == "pid" and s[3][0] == "mcall" and s[3][2] == "and_then" and len(s[3][3]) == 1 and s[3][3][0][0] == "closure" \
                and len(s[3][3][0][1]) == 1 and s[3][3][0][1][0][0] == "pid" and "self.reference_states" in env \
                and s[3][3][0][2] == ("mcall", ("field", ("var", "self"), "reference_states"), "remove_entry", [("ref", ("var", s[3][3][0][1][0][1]))]):
            # `opt.and_then(|k| self.reference_states.remove_entry(&k))`: the entry of key k, taken out of the map (pm_remove_entry)
            def on_opt(a, t, env):
                v, mv, kv = self.fresh(s[1][1]), self.fresh("map"), self.fresh("k")
                env2 = dict(env)
                env2[s[1][1]] = (v, ("opt", ("tup", ["u16", "DecodedPicture"])))
                env2["self.reference_states"] = (mv, env["self.reference_states"][1])
                m0 = env["self.reference_states"][0]
                return "let '(%s, %s) := (match %s with Some %s => pm_remove_entry %s %s | None => (None, %s) end) in\n  %s" % (v, mv, a, kv, m0, kv, m0, rest(env2))
            return self.expr(s[3][1], env, on_opt)
        if kind == "let" and s[1][0] == "pid" and s[3][0] == "ref" and s[3][1][0] == "index" and s[3][1][1][0] == "var" and s[3][1][1][1] in env \
                and isinstance(resolve(env[s[3][1][1][1]][1]), tuple) and resolve(env[s[3][1][1][1]][1])[0] == "list" and self.pure:
            # `let x = &mut v[i];`: the bounds check happens here; later `*x = e` stores into v
            vname = s[3][1][1][1]
            def on_i(i, ti, env):
                env2 = dict(env); env2[s[1][1]] = ("@ELEM@", ("elemref", vname, i))
                return "let* _ := get %s %s in\n  %s" % (env[vname][0], i, rest(env2))
            return self.expr(s[3][1][2], env, on_i, "usize")
        if kind == "let" and s[2] is None and s[1][0] == "pid" and s[3][0] == "int" and s[3][2] is None and self.pure:
            # `let mut n = 0;`: the literal takes the integer type its later uses demand
            return self.bind_pat(s[1], zlit(s[3][1]), self.tvar(), env, rest)
        if kind == "let":
            want_t = norm(s[2]) if s[2] is not None else None
            def bound(a, t, env):
                if isinstance(t, tuple) and t[0] == "result" and s[1][0] == "pid":
                    env2 = dict(env); env2[s[1][1]] = (a, t)       # a Result kept as a value: the call is placed where it is matched on
                    return rest(env2)
                if want_t is not None:
                    t = self.unify(t, want_t, "let annotation") if not (isinstance(resolve(t), tuple)) else t
                return self.bind_pat(s[1], a, t, env, rest)
            return self.expr(s[3], env, bound, want_t)
        if kind == "assign" and s[1][0] == "un" and s[1][1] == "*" and s[1][2][0] == "var" and s[1][2][1] in env \
                and isinstance(env[s[1][2][1]][1], tuple) and env[s[1][2][1]][1][0] == "elemref" and s[2] == "=":
            _, vname, idx = env[s[1][2][1]][1]
            def stored_e(a, t, env):
                v = self.fresh(vname)
                env2 = dict(env); env2[vname] = (v, env[vname][1])
                return "let* %s := set %s %s %s in\n  %s" % (v, env[vname][0], idx, a, rest(env2))
            return self.expr(s[3], env, stored_e)
        if kind == "assign" and s[1][0] == "index" and s[1][1][0] == "index" and s[1][1][1][0] == "var" and s[1][1][1][1] in env \
                and resolve(env[s[1][1][1][1]][1]) == "fmat" and s[2] == "=":
            # m[y][x] = v on an 8x8 matrix: literal indices cannot go out of bounds, others are checked
            mname = s[1][1][1][1]
            ye, xe = s[1][1][2], s[1][2]
            def on_v(va, vt, env):
                def on_y(ya, yt, env):
                    def on_x(xa, xt, env):
                        v = self.fresh(mname)
                        env2 = dict(env); env2[mname] = (v, "fmat")
                        lit = ye[0] == "int" and xe[0] == "int" and 0 <= ye[1] < 8 and 0 <= xe[1] < 8
                        if lit:
                            return "let %s := mat_set %s %s %s %s in\n  %s" % (v, env[mname][0], xa, ya, va, rest(env2))
                        return "let* %s := mat_set_c %s %s %s %s in\n  %s" % (v, env[mname][0], xa, ya, va, rest(env2))
                    return self.expr(xe, env, on_x, "usize")
                return self.expr(ye, env, on_y, "usize")
            return self.expr(s[3], env, on_v)
        if kind == "assign":
            tgt = s[1]
            if tgt[0] == "field" and tgt[1] == ("var", "self") and ("self." + tgt[2]) in env:
                tgt = ("var", "self." + tgt[2])
            if tgt[0] == "index" and tgt[1][0] == "var" and tgt[1][1] in env and resolve(env[tgt[1][1]][1]) == ("mvarr", 4) \
                    and tgt[2][0] == "int" and 0 <= tgt[2][1] < 4 and s[2] == "=":
                # array[literal] = value: cannot go out of bounds
                aname = tgt[1][1]
                def stored(a, t, env):
                    v = self.fresh(aname)
                    env2 = dict(env); env2[aname] = (v, ("mvarr", 4))
                    return "let %s := mv4_set %s %d %s in\n  %s" % (v, env[aname][0], tgt[2][1], a, rest(env2))
                return self.expr(s[3], env, stored)
            if tgt[0] != "var" or tgt[1] not in env:
                raise Untranslatable("assignment target")
            name = tgt[1]
            old, told = env[name]
            rhs = s[3] if s[2] == "=" else ("bin", s[2][:-1], s[1], s[3])
            def assigned(a, t, env):
                tt = resolve(told)
                if not (self.is_flags(tt) or (isinstance(tt, tuple) and tt[0] == "opt")):
                    self.unify(t, told, "assignment to %s" % name)
                v = self.fresh(name)
                env2 = dict(env); env2[name] = (v, told if not (isinstance(tt, tuple) and tt[0] == "opt" and tt[1] is None) else t)
                return "let %s := %s in\n  %s" % (v, a, rest(env2))
            return self.expr(rhs, env, assigned, told)
        if kind == "expr":
            e = s[1]
            if e[0] == "if":
                return self.if_stmt(e, env, rest)
            if e[0] == "return":
                return self.ret(e[1], env)
            if e[0] in ("break", "continue"):
                return self.expr(e, env, None)
            if e[0] == "iflet" and e[4] is None and e[1][0] == "pctor" and e[1][1] == ["Some"] and len(e[1][2]) == 1 and e[1][2][0][0] == "pid" \
                    and not self.has_return(e[3]) and self.pure:
                upd = sorted(v for v in self.assigned(e[3], set()) if v in env)
                def on_o(a, t, env):
                    t = resolve(t)
                    if not (isinstance(t, tuple) and t[0] == "opt"):
                        raise Untranslatable("if let Some(..) on %r" % (t,))
                    x = self.fresh(e[1][2][0][1])
                    env2 = dict(env); env2[e[1][2][0][1]] = (x, t[1])
                    tup = lambda envx: "Ok (%s)" % ", ".join(envx[v][0] for v in upd) if len(upd) != 1 else "Ok %s" % envx[upd[0]][0]
                    body = self.stmts(e[3][1], 0, e[3][2], env2, lambda a2, t2, env3: tup(env3), None)
                    names = [self.fresh(v) for v in upd]
                    env4 = dict(env)
                    for v, nm in zip(upd, names):
                        env4[v] = (nm, env[v][1])
                    pat = "(%s)" % ", ".join(names) if len(names) != 1 else names[0]
                    return "let* %s := (match %s with Some %s => (%s) | None => %s end) in\n  %s" % (pat, a, x, body, tup(env), rest(env4))
                return self.expr(e[2], env, on_o)
            if e[0] == "iflet" and e[4] is None and e[1][0] == "pctor" and e[1][1] == ["Some"] and len(e[1][2]) == 1 and e[1][2][0][0] == "ptuple" \
                    and all(q[0] == "pid" for q in e[1][2][0][1]) and self.assigned(e[3], set()) == {"self.reference_states"} \
                    and not self.has_return(e[3]) and "self.reference_states" in env:
                def on_x(a, t, env):
                    t = resolve(t)
                    if not (isinstance(t, tuple) and t[0] == "opt" and isinstance(resolve(t[1]), tuple) and resolve(t[1])[0] == "tup"
                            and len(resolve(t[1])[1]) == len(e[1][2][0][1])):
                        raise Untranslatable("if let Some((..)) on %r" % (t,))
                    env2, names = dict(env), []
                    for q, ti in zip(e[1][2][0][1], resolve(t[1])[1]):
                        v = self.fresh(q[1]); env2[q[1]] = (v, ti); names.append(v)
                    cp = names[0]
                    for nm in names[1:]:
                        cp = "(%s, %s)" % (cp, nm)
                    body = self.stmts(e[3][1], 0, e[3][2], env2, lambda a2, t2, env3: env3["self.reference_states"][0], None)
                    mv = self.fresh("map")
                    env4 = dict(env); env4["self.reference_states"] = (mv, env["self.reference_states"][1])
                    return "let %s := (match %s with Some %s => (%s) | None => %s end) in\n  %s" % (mv, a, cp, body, env["self.reference_states"][0], rest(env4))
                return self.expr(e[2], env, on_x)
            if e[0] == "while":
                return self.while_stmt(e, env, rest)
            if e[0] == "loop" and self.loop_vars is None and e[1][0] == "block" and e[1][1] and e[1][1][0][0] == "expr" \
                    and e[1][1][0][1][0] == "if" and e[1][1][0][1][3] is None \
                    and e[1][1][0][1][2] == ("block", [("expr", ("break",))], None) \
                    and not self.has_loop_exit(("block", e[1][1][1:], e[1][2])):
                # `loop { if !c { break; } body }` is `while c { body }`
                c = e[1][1][0][1][1]
                while c[0] == "paren":
                    c = c[1]
                c = c[2] if (c[0] == "un" and c[1] == "!") else ("un", "!", ("paren", c))
                return self.while_stmt(("while", c, ("block", e[1][1][1:], e[1][2])), env, rest)
            if e[0] == "for":
                return self.for_stmt(e, env, rest)
            if e[0] == "call" and e[1] == ("var", "gather_block") and len(e[2]) == 5:
                return self.gather_block_call(e, env, rest)
            if e[0] == "call" and e[1] == ("var", "inverse_rle") and len(e[2]) == 5 and e[2][1][0] == "ref" and e[2][1][1][0] == "var" and e[2][1][1][1] in env:
                return self.inverse_rle_call(e, env, rest)
            if e[0] == "mcall" and e[2] == "push":
                return self.expr(e, env, lambda a, t, env: rest(env))
            if e[0] == "mcall" and e[2] == "resize" and len(e[3]) == 2 and e[1][0] == "var" and e[1][1] in env \
                    and isinstance(resolve(env[e[1][1]][1]), tuple) and resolve(env[e[1][1]][1])[0] == "list":
                vname = e[1][1]
                def rz(n, tn, env):
                    def rz2(x, tx, env):
                        v = self.fresh(vname)
                        env2 = dict(env); env2[vname] = (v, env[vname][1])
                        return "let %s := vec_resize %s %s %s in\n  %s" % (v, env[vname][0], n, x, rest(env2))
                    return self.expr(e[3][1], env, rz2)
                return self.expr(e[3][0], env, rz, "usize")
            if e[0] == "call" and e[1] == ("var", "idct_channel") and len(e[2]) == 4:
                return self.idct_channel_call(e, env, rest)
            if e[0] == "try" and e[1][0] == "call" and e[1][1] == ("var", "gather") and len(e[1][2]) == 5 and e[1][2][4][0] == "ref" \
                    and e[1][2][4][1][0] == "var" and e[1][2][4][1][1] in env:
                g = e[1][2]
                pname = g[4][1][1]
                def g1(ta, tt, env):
                    def g2(ra, rt, env):
                        def g3(va, vt, env):
                            def g4(ma, mt, env):
                                v = self.fresh(pname)
                                env2 = dict(env); env2[pname] = (v, env[pname][1])
                                # gather is translated and bridged on its own (gen/GenPGather.v, bridge_p_gather)
                                return "let* %s := p_gather %s %s %s %s %s in\n  %s" % (v, ta, ra, va, ma, env[pname][0], rest(env2))
                            return self.expr(g[3], env, g4, "usize")
                        return self.expr(g[2], env, g3)
                    return self.expr(g[1], env, g2)
                return self.expr(g[0], env, g1)
            if e[0] == "mcall" and e[2] == "commit" and e[1] == ("var", "reader") and not e[3]:
                return rest(env)          # commit() drops consumed bytes: the identity on the abstract reader (model/Reader.v)
            if e[0] == "mcall" and e[2] == "insert" and e[1] == ("field", ("var", "self"), "reference_states") and len(e[3]) == 2 \
                    and "self.reference_states" in env:
                def ins(kk, tk, env):
                    def ins2(vv, tv, env):
                        v = self.fresh("map")
                        env2 = dict(env); env2["self.reference_states"] = (v, env["self.reference_states"][1])
                        return "let %s := pm_insert %s %s %s in\n  %s" % (v, env["self.reference_states"][0], kk, vv, rest(env2))
                    return self.expr(e[3][1], env, ins2)
                return self.expr(e[3][0], env, ins)
            if e[0] == "mcall" and e[2] == "cleanup_buffers" and e[1] == ("var", "self") and not e[3] and "self.last_picture" in env:
                # cleanup_buffers (and_then / remove_entry / a fresh HashMap) is the model's function of the same name
                v = self.fresh("st")
                env2 = dict(env)
                for f in ("last_picture", "reference_picture", "reference_states"):
                    env2["self." + f] = ("(%s %s)" % (f, v), env["self." + f][1])
                cur = "(mkState (st_opts %s) %s %s (running_options %s) %s)" % (env["self"][0], env["self.last_picture"][0],
                                                                              env["self.reference_picture"][0], env["self"][0], env["self.reference_states"][0])
                return "let %s := cleanup_buffers %s in\n  %s" % (v, cur, rest(env2))
            if e[0] == "try":
                return self.expr(e, env, lambda a, t, env: rest(env))
            raise Untranslatable("expression statement %s" % e[0])
        raise Untranslatable("statement %s" % kind)

    def bind_pat(self, pat, a, t, env, rest):
        t = resolve(t)
        if pat[0] == "pid":
            v = self.fresh(pat[1])
            env2 = dict(env); env2[pat[1]] = (v, t)
            return "let %s := %s in\n  %s" % (v, a, rest(env2))
        if pat[0] == "pwild":
            return rest(env)
        if pat[0] == "ptuple":
            if not (isinstance(t, tuple) and t[0] == "tup" and len(t[1]) == len(pat[1])):
                raise Untranslatable("tuple pattern against %r" % (t,))
            names, env2 = [], dict(env)
            for p, ti in zip(pat[1], t[1]):
                if p[0] == "pid":
                    v = self.fresh(p[1]); env2[p[1]] = (v, ti); names.append(v)
                elif p[0] == "pwild":
                    names.append("_")
                else:
                    raise Untranslatable("nested pattern")
            cp = names[0]
            for nm in names[1:]:
                cp = "(%s, %s)" % (cp, nm)
            return "let '%s := %s in\n  %s" % (cp, a, rest(env2))
        if pat[0] == "parray" and isinstance(t, tuple) and t[0] == "list" and all(p[0] in ("pid", "pwild") for p in pat[1]):
            names, env2 = [], dict(env)
            for p in pat[1]:
                if p[0] == "pid":
                    v = self.fresh(p[1]); env2[p[1]] = (v, t[1]); names.append(v)
                else:
                    names.append("_")
            # a fixed-size array in the code, a list in the model: any other length cannot occur
            return "match %s with\n  | [%s] =>\n  %s\n  | _ => Panic PAssert\n  end" % (a, "; ".join(names), rest(env2))
        if pat[0] == "parray" and isinstance(t, tuple) and t[0] == "mvarr" and t[1] == len(pat[1]) and all(p[0] in ("pid", "pwild") for p in pat[1]):
            names, env2 = [], dict(env)
            for p in pat[1]:
                if p[0] == "pid":
                    v = self.fresh(p[1]); env2[p[1]] = (v, "MotionVector"); names.append(v)
                else:
                    names.append("_")
            cp = names[0]
            for nm in names[1:]:
                cp = "(%s, %s)" % (cp, nm)
            return "let '%s := %s in\n  %s" % (cp, a, rest(env2))
        raise Untranslatable("pattern %r" % (pat,))

    def join(self, branches_nodes, env, rest_with_value):
        """A join point for control flow whose branches may update variables: returns (definition text, call(env, value_atom))"""
        mutated = set()
        for b in branches_nodes:
            self.assigned(b, mutated)
        vars_ = sorted(v for v in mutated if v in env or v == "$reader")
        kname = self.fresh("k")
        params = [self.fresh(v.replace("$", "")) for v in vars_]
        env2 = dict(env)
        for v, pn in zip(vars_, params):
            env2[v] = (pn, env[v][1])
        return kname, vars_, params, env2

    def lift(self, kname, head_params, vars_, params, env_def, body, rt=None):
        """Record the join point `kname` (to become a top-level function of the variables it captures, its value parameters
        head_params [(name, type)] and the updated variables) and return the builder of calls to it.  Calls are markers
        until the end of the function, when the captured variables of every join point are known (resolve_lifted)."""
        full = "%s_%s" % (self.fname, kname)
        self.lifted.append({"name": full, "head": head_params, "vars": vars_, "params": params, "env": env_def, "body": body,
                            "rt": rt or getattr(self, "cur_rt", None)})
        def callf(values, env2):
            return "@K:%s@%s@%s@" % (full, ";;".join(values), ";;".join(env2[v][0] for v in vars_))
        return callf

    KMARK = re.compile(r"@K:(\w+)@(.*?)@(.*?)@", re.S)

    def resolve_lifted(self, main_code, rt_coq):
        ents = {e["name"]: e for e in self.lifted}
        def atoms_of(e):
            out = []
            own = set(e["params"]) | set(n for n, _ in e["head"])
            for var, (atom, ty) in sorted(e["env"].items(), key=lambda kv: kv[1][0]):
                if atom in own or not re.match(r"^[A-Za-z_][A-Za-z0-9_']*$", atom):
                    continue
                if re.search(r"(?<![A-Za-z0-9_'])%s(?![A-Za-z0-9_'])" % re.escape(atom), e["body"]):
                    out.append((atom, ty))
            return out
        def bound_in(body):
            out = set()
            for m in re.finditer(r"let\*?\s*'?([^=]*?):=", body):
                out |= set(re.findall(r"[A-Za-z_][A-Za-z0-9_']*", m.group(1)))
            for m in re.finditer(r"\|\s*Some\s+([A-Za-z_][A-Za-z0-9_']*)\s*=>", body):
                out.add(m.group(1))
            for m in re.finditer(r"\|\s*(?:Ok|Err)\s+\(?([A-Za-z0-9_', ]*)\)?\s*=>", body):
                out |= set(re.findall(r"[A-Za-z_][A-Za-z0-9_']*", m.group(1)))
            for m in re.finditer(r"\|\s*\((Mb[A-Za-z]+)\s+([A-Za-z0-9_' ]*)\)\s*=>", body):
                out |= set(re.findall(r"[A-Za-z_][A-Za-z0-9_']*", m.group(2)))
            return out
        cap = {n: atoms_of(e) for n, e in ents.items()}
        local = {n: bound_in(e["body"]) for n, e in ents.items()}
        for n in cap:
            cap[n] = [(a, t) for a, t in cap[n] if a not in local[n]]
        changed = True
        while changed:
            changed = False
            for n, e in ents.items():
                own = set(e["params"]) | set(x for x, _ in e["head"])
                have = set(a for a, _ in cap[n])
                for m in self.KMARK.finditer(e["body"]):
                    for a, t in cap[m.group(1)]:
                        if a not in have and a not in own and a not in local[n]:
                            cap[n].append((a, t)); have.add(a); changed = True
        def binder(n, t):
            try:
                if t == "reader":
                    return "(%s : reader)" % n
                if t == "DecoderOption":
                    return "(%s : dec_opts)" % n
                tt = resolve(t)
                if tt is None:
                    return "(%s : unit)" % n
                if (isinstance(tt, tuple) and tt[0] == "opt" and resolve(tt[1]) is None) or isinstance(tt, TVar):
                    return n
                return "(%s : %s)" % (n, coq_of(tt, self.defs_for_types))
            except Untranslatable:
                return n
        unit = {}
        for n, e in ents.items():
            unit[n] = not (cap[n] or e["head"] or e["vars"])
        def render(code):
            def one(m):
                n = m.group(1)
                if unit[n]:
                    return "%s tt" % n
                vals = [x for x in m.group(2).split(";;") if x != ""]
                ups = [x for x in m.group(3).split(";;") if x != ""]
                return "%s %s" % (n, " ".join([a for a, _ in cap[n]] + vals + ups))
            prev = None
            while prev != code:
                prev = code
                code = self.KMARK.sub(one, code)
            return code
        texts = {}
        for n, e in ents.items():
            bl = [binder(a, t) for a, t in cap[n]] + [binder(x, t) for x, t in e["head"]] + \
                 [binder(pn, e["env"][v][1]) for v, pn in zip(e["vars"], e["params"])]
            if not bl:
                bl = ["(_ : unit)"]
            rt_n = e["rt"] or rt_coq
            m_pl = re.match(r"@PLAIN:(.*)@$", rt_n)
            if m_pl:
                texts[n] = "Definition %s %s : res %s :=\n  %s.\n" % (n, " ".join(bl), m_pl.group(1), render(e["body"]))
                continue
            m_st = re.match(r"@STATE:(\w+)@", rt_n)
            if m_st:
                mutated, envb = self.loop_state[m_st.group(1)]
                parts = [coq_of(envb[v][1], self.defs_for_types) for v in mutated]
                rt_n = parts[0] if len(parts) == 1 else "(" + " * ".join(parts) + ")"
            texts[n] = "Definition %s %s : res (%s * reader) :=\n  %s.\n" % (n, " ".join(bl), rt_n, render(e["body"]))
        # dependency order
        ordered, pending = [], list(texts)
        while pending:
            progress = False
            for n in list(pending):
                body_l = texts[n].split(":=", 1)[1]
                if not any(re.search(r"(?<![A-Za-z0-9_'])%s(?![A-Za-z0-9_'])" % re.escape(o), body_l) for o in pending if o != n):
                    ordered.append(n); pending.remove(n); progress = True
            if not progress:
                raise Untranslatable("cyclic join points")
        return [texts[n] for n in ordered], ordered, render(main_code)

    def fixer(self, kname, callf, vars_):
        """markers `@CALL:kname@value@updates@` written before the join was recorded -> the uniform call markers"""
        pat = re.compile(r"@CALL:%s@(.*?)@(.*?)@" % re.escape(kname), re.S)
        def one(m):
            envx = {v: (x, None) for v, x in zip(vars_, m.group(2).split("|"))} if vars_ else {}
            return callf([m.group(1)], envx)
        fix = lambda code: pat.sub(one, code)
        for e in self.lifted:
            e["body"] = fix(e["body"])
        return fix

    def gather_block_call(self, e, env, rest):
        """gather_block(src, samples_per_row, pos, mv, target.as_<plane>_mut()): the model's gather_block returns the new plane"""
        src, spr, pos, mv, tgt = e[2]
        def a1(sa, st, env):
            def a2(pa, pt, env):
                def a3(qa, qt, env):
                    def a4(ma, mt, env):
                        def a5(ta, tt, env):
                            m = re.match(r"@PLANE:(\w+):(\w+)@", ta)
                            if not m or m.group(1) not in env:
                                raise Untranslatable("gather_block target")
                            var, field = m.group(1), m.group(2)
                            np_atom = env[var][0]
                            pl, np2 = self.fresh("pl"), self.fresh(var)
                            getter = {"luma": "d_luma", "cb": "d_cb", "cr": "d_cr"}[field]
                            parts = {"luma": "(d_luma %s)" % np_atom, "cb": "(d_cb %s)" % np_atom, "cr": "(d_cr %s)" % np_atom}
                            parts[field] = pl
                            env2 = dict(env); env2[var] = (np2, env[var][1])
                            return ("let* %s := gather_block %s %s (fst %s) (snd %s) %s (%s %s) in\n  let %s := mkDecoded (d_header %s) (d_format %s) %s %s %s (d_chroma_w %s) in\n  %s"
                                    % (pl, sa, pa, qa, qa, ma, getter, np_atom, np2, np_atom, np_atom, parts["luma"], parts["cb"], parts["cr"], np_atom, rest(env2)))
                        return self.expr(tgt, env, a5)
                    return self.expr(mv, env, a4)
                return self.expr(pos, env, a3)
            return self.expr(spr, env, a2)
        return self.expr(src, env, a1)

    def idct_channel_call(self, e, env, rest):
        """idct_channel(&levels, picture.as_<plane>_mut(), blk_per_line, samples_per_row): the model's idct_channel returns the plane"""
        lev, tgt, bpl, spr = e[2]
        def a1(la, lt, env):
            def a2(ta, tt, env):
                def a3(ba, bt, env):
                    def a4(sa, st, env):
                        m = re.match(r"@PLANE:(\w+):(\w+)@", ta)
                        if not m or m.group(1) not in env:
                            raise Untranslatable("idct_channel target")
                        var, field = m.group(1), m.group(2)
                        np_atom = env[var][0]
                        pl, np2 = self.fresh("pl"), self.fresh(var)
                        getter = {"luma": "d_luma", "cb": "d_cb", "cr": "d_cr"}[field]
                        parts = {"luma": "(d_luma %s)" % np_atom, "cb": "(d_cb %s)" % np_atom, "cr": "(d_cr %s)" % np_atom}
                        parts[field] = pl
                        env2 = dict(env); env2[var] = (np2, env[var][1])
                        return ("let* %s := idct_channel %s (%s %s) %s %s in\n  let %s := mkDecoded (d_header %s) (d_format %s) %s %s %s (d_chroma_w %s) in\n  %s"
                                % (pl, la, getter, np_atom, ba, sa, np2, np_atom, np_atom, parts["luma"], parts["cb"], parts["cr"], np_atom, rest(env2)))
                    return self.expr(spr, env, a4, "usize")
                return self.expr(bpl, env, a3, "usize")
            return self.expr(tgt, env, a2)
        return self.expr(lev, env, a1)

    def inverse_rle_call(self, e, env, rest):
        """inverse_rle(&block, &mut levels, pos, blk_per_line, quant): the model's inverse_rle returns the new levels"""
        blk, lev, pos, bpl, q = e[2]
        lname = lev[1][1]
        def a1(ba, bt, env):
            def a2(pa, pt, env):
                def a3(wa, wt, env):
                    def a4(qa, qt, env):
                        v = self.fresh(lname)
                        env2 = dict(env); env2[lname] = (v, env[lname][1])
                        return "let* %s := inverse_rle %s %s (fst %s) (snd %s) %s %s in\n  %s" % (v, ba, env[lname][0], pa, pa, wa, qa, rest(env2))
                    return self.expr(q, env, a4)
                return self.expr(bpl, env, a3, "usize")
            return self.expr(pos, env, a2)
        return self.expr(blk, env, a1)

    def for_stmt(self, e, env, rest):
        """`for (i, (a, b)) in X.iter().zip(Y.iter()).enumerate() { BODY }`: the body becomes a function of the index, the two
        elements and the variables it assigns; the loop is `for_zip_enum` of base/Checked.v (structural recursion on the lists)"""
        pat, it, body = e[1], e[2], e[3]
        if pat[0] == "pid" and self.pure:
            return self.for_each_stmt(e, env, rest)
        ok = (it[0] == "mcall" and it[2] == "enumerate" and it[1][0] == "mcall" and it[1][2] == "zip" and len(it[1][3]) == 1
              and it[1][1][0] == "mcall" and it[1][1][2] == "iter" and it[1][3][0][0] == "mcall" and it[1][3][0][2] == "iter"
              and pat[0] == "ptuple" and len(pat[1]) == 2 and pat[1][0][0] == "pid" and pat[1][1][0] == "ptuple"
              and len(pat[1][1][1]) == 2 and all(q[0] == "pid" for q in pat[1][1][1]))
        if not ok:
            raise Untranslatable("for loop other than `for (i, (a, b)) in x.iter().zip(y.iter()).enumerate()`")
        for node in self.returns_in(body):
            if not (node[0] == "call" and node[1] == ("var", "Err")):
                raise Untranslatable("`return` of a value inside a loop")
        la, lb = it[1][1][1], it[1][3][0][1]
        iv, av, bv = pat[1][0][1], pat[1][1][1][0][1], pat[1][1][1][1][1]
        def on_a(la_a, la_t, env):
            def on_b(lb_a, lb_t, env):
                la_t2, lb_t2 = resolve(la_t), resolve(lb_t)
                if not (isinstance(la_t2, tuple) and la_t2[0] == "list" and isinstance(lb_t2, tuple) and lb_t2[0] == "list"):
                    raise Untranslatable("zip of %r and %r" % (la_t2, lb_t2))
                mutated = sorted(v for v in self.assigned_or_planes(body) if v in env and v != "$reader")
                if len(mutated) != 1:
                    raise Untranslatable("for loop with other than one state variable")
                sv = mutated[0]
                kname = self.fresh("forbody")
                pi, pa, pb, ps = self.fresh(iv), self.fresh(av), self.fresh(bv), self.fresh(sv)
                envb = dict(env)
                envb[iv] = (pi, "usize"); envb[av] = (pa, la_t2[1]); envb[bv] = (pb, lb_t2[1]); envb[sv] = (ps, env[sv][1])
                saved_rt = getattr(self, "cur_rt", None)
                st_coq = coq_of(env[sv][1], self.defs_for_types)
                self.cur_rt = "@PLAIN:%s@" % st_coq
                saved_out = getattr(self, "out_param", None)
                self.out_param = None
                body_code = self.block(body, envb, lambda a, t, env2: "Ok %s" % env2[sv][0])
                self.out_param = saved_out
                self.cur_rt = saved_rt
                callf = self.lift(kname, [(pi, "usize"), (pa, la_t2[1]), (pb, lb_t2[1])], [sv], [ps], env, body_code, rt="@PLAIN:%s@" % st_coq)
                out = self.fresh(sv)
                env3 = dict(env); env3[sv] = (out, env[sv][1])
                call = callf([pi, pa, pb], {sv: (ps, None)})
                return "let* %s := for_zip_enum (fun %s %s %s %s => %s) %s %s 0 %s in\n  %s" % (out, pi, pa, pb, ps, call, la_a, lb_a, env[sv][0], rest(env3))
            return self.expr(lb, env, on_b)
        return self.expr(la, env, on_a)

    def for_each_stmt(self, e, env, rest):
        """`for x in list.iter() { BODY }` over several local variables, BODY possibly leaving the function with `return`: the body
        becomes a function `element -> state -> res (state + result)`; the loop is for_each_ret of base/Checked.v"""
        pat, it, body = e[1], e[2], e[3]
        def on_l(la, lt, env):
            lt2 = resolve(lt)
            if not (isinstance(lt2, tuple) and lt2[0] == "list"):
                raise Untranslatable("for over %r" % (lt2,))
            mutated = sorted(v for v in self.assigned(body, set()) if v in env and v != "$reader")
            if not mutated:
                raise Untranslatable("for loop without a state variable")
            st_coq = "(" + " * ".join(coq_of(env[v][1], self.defs_for_types) for v in mutated) + ")"
            r_coq = coq_of(self.rty, self.defs_for_types) if self.rty is not None else None
            if r_coq is None:
                raise Untranslatable("for loop in a function whose result type is unknown")
            kname = self.fresh("forbody")
            px = self.fresh(pat[1])
            ps = [self.fresh(v) for v in mutated]
            envb = dict(env)
            envb[pat[1]] = (px, lt2[1])
            for v, nm in zip(mutated, ps):
                envb[v] = (nm, env[v][1])
            rt = "@PLAIN:(%s + %s)@" % (st_coq, r_coq)
            saved_rt, saved_wrap = getattr(self, "cur_rt", None), self.ret_wrap
            self.cur_rt, self.ret_wrap = rt, "ret_inr"
            try:
                tup = lambda envx: ", ".join(envx[v][0] for v in mutated)
                stm = list(body[1]) + ([("expr", body[2])] if body[2] is not None else [])
                body_code = self.stmts(stm, 0, None, envb, lambda a, t, env2: "Ok (inl (%s))" % tup(env2), None)
            finally:
                self.cur_rt, self.ret_wrap = saved_rt, saved_wrap
            callf = self.lift(kname, [(px, lt2[1])], mutated, ps, env, body_code, rt=rt)
            call = callf([px], {v: (nm, None) for v, nm in zip(mutated, ps)})
            outs = [self.fresh(v) for v in mutated]
            env3 = dict(env)
            for v, nm in zip(mutated, outs):
                env3[v] = (nm, env[v][1])
            x, s_, r_ = self.fresh("x"), self.fresh("s"), self.fresh("r")
            spat = "(%s)" % ", ".join(ps) if len(ps) > 1 else ps[0]
            opat = "(%s)" % ", ".join(outs) if len(outs) > 1 else outs[0]
            cur = "(%s)" % ", ".join(env[v][0] for v in mutated) if len(mutated) > 1 else env[mutated[0]][0]
            return ("let* %s := for_each_ret (fun %s %s => let '%s := %s in %s) %s %s in\n  match %s with\n  | inr %s => Ok %s\n  | inl %s =>\n  %s\n  end"
                    % (x, px, s_, spat, s_, call, la, cur, x, r_, r_, opat, rest(env3)))
        src_l = it
        if src_l[0] == "mcall" and src_l[2] == "iter" and not src_l[3]:
            src_l = src_l[1]
        if src_l[0] == "ref":
            src_l = src_l[1]
        return self.expr(src_l, env, on_l)

    def assigned_or_planes(self, node):
        acc = self.assigned(node, set())
        def walk(n):
            if isinstance(n, tuple):
                if n and n[0] == "mcall" and n[2] in ("as_luma_mut", "as_chroma_b_mut", "as_chroma_r_mut") and n[1][0] == "var":
                    acc.add(n[1][1])
                for x in n:
                    walk(x)
            elif isinstance(n, list):
                for x in n:
                    walk(x)
        walk(node)
        return acc

    def while_stmt(self, e, env, rest):
        """`while COND { BODY }`: the body becomes a function of the loop state (the variables it assigns) and the reader; the
        loop itself is the fuelled combinator `while_loop` of base/Checked.v with fuel = unread bits + 2 (one unit for the final test of the condition; every iteration of
        the loops translated here reads at least one bit; running out of fuel is OutOfFuel, which no theorem accepts)."""
        cond, body = e[1], e[2]
        for node in self.returns_in(body):
            if not (node[0] == "call" and node[1] == ("var", "Err")):
                raise Untranslatable("`return` of a value inside a loop")
        mutated = sorted(v for v in self.assigned(body, set()) if v in env and v != "$reader")
        if not mutated:
            raise Untranslatable("loop without state")
        kname = self.fresh("loop")
        params = [self.fresh(v) for v in mutated]
        rp = self.fresh("reader")
        envb = dict(env)
        for v, pn in zip(mutated, params):
            envb[v] = (pn, env[v][1])
        envb["$reader"] = (rp, "reader")
        tup = lambda env2: "Ok (%s)" % ", ".join([env2[v][0] for v in mutated] + [env2["$reader"][0]])
        self.loop_state = getattr(self, "loop_state", {})
        self.loop_state[kname] = (mutated, envb)
        saved_rt = getattr(self, "cur_rt", None)
        self.cur_rt = "@STATE:%s@" % kname
        body_code = self.block(body, envb, lambda a, t, env2: tup(env2))
        self.cur_rt = saved_rt
        # types of the state (after the body has refined them, e.g. Vec<T>)
        def sty(v):
            t = resolve(envb[v][1])
            return t
        h = {}
        def cap(a, t, env2):
            h["c"] = a
            return ""
        self.expr(cond, envb, cap, "bool")
        if "let" in h["c"]:
            raise Untranslatable("loop condition with effects")
        self.pending_loops = getattr(self, "pending_loops", [])
        state_pat = ", ".join(params)
        callf = self.lift(kname, [], mutated + ["$reader"], params + [rp], dict(env, **{"$reader": env["$reader"]}), body_code, rt="@STATE:%s@" % kname)
        self.loop_state = getattr(self, "loop_state", {})
        self.loop_state[kname] = (mutated, envb)
        out_params = [self.fresh(v) for v in mutated]
        r2 = self.fresh("r")
        env3 = dict(env)
        for v, pn in zip(mutated, out_params):
            env3[v] = (pn, envb[v][1])
        env3["$reader"] = (r2, "reader")
        r = env["$reader"][0]
        body_call = callf([], {**{v: (pn, None) for v, pn in zip(mutated, params)}, "$reader": (rp, None)})
        return "let* (%s) := while_loop (S (S (length (rbits %s)))) (fun '(%s) => %s) (fun '(%s) %s => %s) (%s) %s in\n  %s" % (
            ", ".join(out_params + [r2]), r, state_pat, h["c"], state_pat, rp, body_call,
            ", ".join(env[v][0] for v in mutated), r, rest(env3))

    def returns_in(self, node):
        out = []
        if isinstance(node, tuple):
            if node and node[0] == "return" and node[1] is not None:
                out.append(node[1])
            for x in node:
                out += self.returns_in(x)
        elif isinstance(node, list):
            for x in node:
                out += self.returns_in(x)
        return out

    def if_stmt(self, e, env, rest):
        c_e, thn, els = e[1], e[2], e[3]
        branches = [thn] + ([els] if els is not None else [])
        def tname(node):
            if node[0] == "var":
                return node[1]
            if node[0] == "field" and node[1] == ("var", "self"):
                return "self." + node[2]
            return None
        simple = els is None and not self.has_return(thn) and "$reader" not in self.assigned(thn, set()) and thn[2] is None \
            and all(s[0] == "assign" and tname(s[1]) in env for s in thn[1])
        def with_cond(c, tc, env):
            if simple:
                # conditional updates
                def go(j, env):
                    if j == len(thn[1]):
                        return rest(env)
                    s = thn[1][j]
                    name = tname(s[1])
                    rhs = s[3] if s[2] == "=" else ("bin", s[2][:-1], s[1], s[3])
                    old, told = env[name]
                    def upd(a, t, env):
                        v = self.fresh(name)
                        env2 = dict(env); env2[name] = (v, told)
                        return "let %s := (if %s then %s else %s) in\n  %s" % (v, c, a, old, go(j + 1, env2))
                    return self.expr(rhs, env, upd, told)
                return go(0, env)
            if not any(self.has_exit(b) for b in branches):
                # direct style: the branches only update variables and read; their result is the tuple of updated variables
                kname, vars_, params, envk = self.join(branches, env, None)
                if "$reader" not in vars_:
                    vars_ = vars_ + ["$reader"]; rp = self.fresh("reader"); params = params + [rp]; envk["$reader"] = (rp, "reader")
                order = [v for v in vars_ if v != "$reader"] + ["$reader"]
                pn = dict(zip(vars_, params))
                tup = lambda env2: "Ok (%s)" % ", ".join(env2[v][0] for v in order)
                t_code = self.block(thn, env, lambda a, t, env2: tup(env2))
                e_code = tup(env) if els is None else (self.if_stmt(els, env, lambda env2: tup(env2)) if els[0] == "if" else self.block(els, env, lambda a, t, env2: tup(env2)))
                return "let* (%s) := (if %s then (%s) else (%s)) in\n  %s" % (", ".join(pn[v] for v in order), c, t_code, e_code, rest(envk))
            kname, vars_, params, envk = self.join(branches, env, None)
            body = rest(envk)
            callf = self.lift(kname, [], vars_, params, env, body)
            call = lambda env2: callf([], env2)
            t_code = self.block(thn, env, lambda a, t, env2: call(env2))
            e_code = call(env) if els is None else (self.if_stmt(els, env, lambda env2: call(env2)) if els[0] == "if" else self.block(els, env, lambda a, t, env2: call(env2)))
            return "if %s then (%s) else (%s)" % (c, t_code, e_code)
        return self.expr(c_e, env, with_cond, "bool")

    def iflet(self, e, env, k, want):
        """`if let Some(x) = E { A } else { B }` is `match E { Some(x) => A, None => B }`"""
        pat, subject, thn, els = e[1], e[2], e[3], e[4]
        if not (pat[0] == "pctor" and pat[1] == ["Some"] and len(pat[2]) == 1) or els is None:
            raise Untranslatable("if let with this pattern")
        arms = [(pat, None, thn), (("pid", "None"), None, els)]
        def on(a, t, env):
            t = resolve(t)
            if not (isinstance(t, tuple) and t[0] == "opt"):
                raise Untranslatable("if let on %r" % (t,))
            return self.match_option(a, t, arms, env, k, want)
        return self.expr(subject, env, on)

    def if_expr(self, e, env, k, want):
        if e[3] is None:
            raise Untranslatable("`if` without `else` used as a value")
        def with_cond(c, tc, env):
            pure = not self.has_return(e[2]) and not self.has_return(e[3]) and not self.assigned(e[2], set()) and not self.assigned(e[3], set())
            if pure:
                h = {}
                def cap(tag):
                    def f(a, t, env):
                        h[tag] = (a, t)
                        return "@@"
                    return f
                c1 = self.block(e[2], env, cap("a"), want)
                c2 = self.block(e[3], env, cap("b"), want if want is not None else h["a"][1])
                if c1 == "@@" and c2 == "@@":
                    ta, tb = h["a"][1], h["b"][1]
                    t = self.merge(ta, tb)
                    return k("(if %s then %s else %s)" % (c, h["a"][0], h["b"][0]), t, env)
            if not self.has_exit(e[2]) and not self.has_exit(e[3]):
                kname, vars_, params, envk = self.join([e[2], e[3]], env, None)
                if "$reader" not in vars_:
                    vars_ = vars_ + ["$reader"]; rp = self.fresh("reader"); params = params + [rp]; envk["$reader"] = (rp, "reader")
                order = [v for v in vars_ if v != "$reader"] + ["$reader"]
                pn = dict(zip(vars_, params))
                vp = self.fresh("x")
                h = {}
                def tupv(a, t, env2):
                    h["t"] = self.merge(h.get("t"), t)
                    return "Ok (%s)" % ", ".join([a] + [env2[v][0] for v in order])
                t_code = self.block(e[2], env, tupv, want)
                e_code = self.block(e[3], env, tupv, want if want is not None else h.get("t"))
                return "let* (%s) := (if %s then (%s) else (%s)) in\n  %s" % (", ".join([vp] + [pn[v] for v in order]), c, t_code, e_code, k(vp, h.get("t"), envk))
            kname, vars_, params, envk = self.join([e[2], e[3]], env, None)
            vp = self.fresh("x")
            h = {}
            def call(a, t, env2):
                h["t"] = self.merge(h.get("t"), t)
                return "@CALL:%s@%s@%s@" % (kname, a, "|".join(env2[v][0] for v in vars_))
            t_code = self.block(e[2], env, call, want)
            e_code = self.block(e[3], env, call, want if want is not None else h.get("t"))
            body = k(vp, h.get("t"), envk)
            callf = self.lift(kname, [(vp, h.get("t"))], vars_, params, env, body)
            fix = self.fixer(kname, callf, vars_)
            return "if %s then (%s) else (%s)" % (c, fix(t_code), fix(e_code))
        return self.expr(e[1], env, with_cond, "bool")

    def merge(self, a, b):
        a, b = resolve(a), resolve(b)
        if a is None:
            return b
        if b is None:
            return a
        if isinstance(a, tuple) and isinstance(b, tuple) and a[0] == b[0] == "opt":
            return ("opt", self.merge(a[1], b[1]))
        if isinstance(a, tuple) and isinstance(b, tuple) and a[0] == b[0] == "tup" and len(a[1]) == len(b[1]):
            return ("tup", tuple(self.merge(x, y) for x, y in zip(a[1], b[1])))
        if isinstance(a, tuple) and a[0] == "structval":
            a = a[1]
        if isinstance(b, tuple) and b[0] == "structval":
            b = b[1]
        if a == b:
            return a
        return self.unify(a, b, "branches")

    def pat_cond(self, pat, scrut):
        if pat[0] == "pwild" or pat[0] == "pid":
            return "true"
        if pat[0] == "plit":
            return "(%s =? %s)" % (scrut, zlit(pat[1]))
        if pat[0] == "prange":
            hi = pat[2]
            if isinstance(hi, tuple) and hi[0] == "path" and len(hi[1]) == 2 and hi[1][0] in INTS and hi[1][1] == "MAX":
                hi = INTS[hi[1][0]][1]
            return "((%s <=? %s) && (%s <=? %s))" % (zlit(pat[1]), scrut, scrut, zlit(hi))
        if pat[0] == "por":
            return "(" + " || ".join(self.pat_cond(p, scrut) for p in pat[1]) + ")"
        raise Untranslatable("pattern %r" % (pat,))

    def match_opt_pair(self, a, t, arms, env, k, want):
        """match on an Option<(int, int)> whose arms are `Some((range-or-wildcard, range-or-wildcard))` and a final `_`,
        all with pure values: a conditional chain over the two components"""
        x, y = self.fresh("w"), self.fresh("h")
        def cond(p, v):
            return "true" if p[0] == "pwild" else self.pat_cond(p, v)
        chain, h = [], {}
        for p, g, b in arms:
            if g is not None:
                raise Untranslatable("guard")
            def cap(a2, t2, env2):
                h["t"] = self.merge(h.get("t"), t2)
                return a2
            val = self.expr(b, env, cap, want if want is not None else h.get("t"))
            if "\n" in val:
                raise Untranslatable("effects inside an arm")
            if p[0] == "pwild":
                chain.append((None, val))
            elif p[0] == "pctor" and p[1] == ["Some"] and len(p[2]) == 1 and p[2][0][0] == "ptuple" and len(p[2][0][1]) == 2:
                c1, c2 = cond(p[2][0][1][0], x), cond(p[2][0][1][1], y)
                c = c1 if c2 == "true" else (c2 if c1 == "true" else "(%s && %s)" % (c1, c2))
                chain.append((c, val))
            else:
                raise Untranslatable("pattern %r" % (p,))
        if not chain or chain[-1][0] is not None:
            raise Untranslatable("no catch-all arm")
        dflt = chain[-1][1]
        body = dflt
        for c, val in reversed(chain[:-1]):
            body = "(if %s then %s else %s)" % (c, val, body)
        return k("(match %s with Some (%s, %s) => %s | None => %s end)" % (a, x, y, body, dflt), h["t"], env)

    def match_expr(self, e, env, k, want):
        scrut, arms = e[1], e[2]
        if scrut[0] == "tuple" and len(scrut[1]) == 2 and all(p[0] == "ptuple" and len(p[1]) == 2 and all(q[0] == "pbool" for q in p[1]) and g is None
                                                                 for p, g, _ in arms) and len(arms) == 4 \
                and {(p[1][0][1], p[1][1][1]) for p, _, _ in arms} == {(True, True), (True, False), (False, True), (False, False)} \
                and not any(self.has_return(b) or self.assigned(b, set()) for _, _, b in arms):
            # match (a, b) { (true, true) => .., .. }: the four arms as nested conditionals
            body = {(p[1][0][1], p[1][1][1]): b for p, _, b in arms}
            def on_a(a, ta, env):
                def on_b(b, tb, env):
                    h, codes = {}, {}
                    for key, bd in body.items():
                        def cap(a2, t2, env3):
                            h["t"] = self.merge(h.get("t"), t2)
                            return a2
                        codes[key] = self.block(bd, env, cap, want) if bd[0] == "block" else self.expr(bd, env, cap, want)
                        if "\n" in codes[key]:
                            raise Untranslatable("effects inside an arm of a match on two flags")
                    return k("(if %s then (if %s then %s else %s) else (if %s then %s else %s))"
                             % (a, b, codes[(True, True)], codes[(True, False)], b, codes[(False, True)], codes[(False, False)]), h["t"], env)
                return self.expr(scrut[1][1], env, on_b, "bool")
            return self.expr(scrut[1][0], env, on_a, "bool")
        def on_scrut(a, t, env):
            t = resolve(t)
            if isinstance(t, tuple) and t[0] == "result" and a.startswith("@RES@"):
                return self.match_result(a[5:], t[1], arms, env, k, want)
            if isinstance(t, tuple) and t[0] == "opt" and isinstance(resolve(t[1]), tuple) and resolve(t[1])[0] == "tup" \
                    and all(is_int(resolve(c)) for c in resolve(t[1])[1]) \
                    and any(p[0] == "pctor" and p[2] and p[2][0][0] == "ptuple" and all(q[0] in ("prange", "pwild", "plit") for q in p[2][0][1]) for p, _, _ in arms):
                return self.match_opt_pair(a, t, arms, env, k, want)
            if isinstance(t, tuple) and t[0] == "opt":
                return self.match_option(a, t, arms, env, k, want)
            if isinstance(t, str) and t in ENUMS:
                return self.match_enum(a, t, arms, env, k, want)
            if not (is_int(t) or isinstance(t, TVar)):
                raise Untranslatable("match on %r" % (t,))
            if any(g is not None for _, g, _ in arms):
                return self.match_int_guards(a, t, arms, env, k, want)
            if isinstance(t, TVar) and all(p[0] in ("plit", "pwild", "por", "prange") for p, _, _ in arms):
                self.unify(t, "i32", "literal patterns")        # Rust's integer fallback
            sv = self.fresh("m")
            # arms that return first (with their effective conditions), then the value arms as one conditional
            conds = [self.pat_cond(p, sv) for p, _, _ in arms]
            if conds[-1] != "true":
                raise Untranslatable("integer match without a catch-all arm")
            def is_ret(body):
                return body[0] == "return"
            pure_arms = all(is_ret(b) or (not self.has_return(b) and not self.assigned(b, set())) for _, _, b in arms)
            if pure_arms:
                guards = []
                for i, (p, _, b) in enumerate(arms):
                    if is_ret(b):
                        eff = conds[i]
                        prev = [conds[j] for j in range(i) if conds[j] != "true"]
                        if prev:
                            eff = "(%s && negb (%s))" % (eff, " || ".join(prev)) if eff != "true" else "(negb (%s))" % " || ".join(prev)
                        guards.append((eff, self.ret(b[1], env)))
                vals = [(conds[i], p, b) for i, (p, _, b) in enumerate(arms) if not is_ret(b)]
                h = {}
                parts = []
                for c, p, b in vals:
                    env2 = dict(env)
                    if p[0] == "pid":
                        env2[p[1]] = (sv, t)
                    def cap(a2, t2, env3):
                        h["t"] = self.merge(h.get("t"), t2)
                        return a2
                    code = self.expr(b, env2, cap, want if want is not None else h.get("t"))
                    if "\n" in code:
                        raise Untranslatable("effects inside a value arm")
                    parts.append((c, code))
                if not parts:
                    raise Untranslatable("match without a value arm")
                val = parts[-1][1]
                for c, code in reversed(parts[:-1]):
                    val = "(if %s then %s else %s)" % (c, code, val)
                x = self.fresh("x")
                out = "let %s := %s in\n  " % (sv, a)
                for eff, rc in guards:
                    out += "if %s then (%s) else\n  " % (eff, rc)
                return out + "let %s := %s in\n  %s" % (x, val, k(x, h["t"], env))
            # general case: a join point taking the value and the variables the arms update
            kname, vars_, params, envk = self.join([b for _, _, b in arms], env, None)
            vp = self.fresh("x")
            h = {}
            def call(a2, t2, env2):
                h["t"] = self.merge(h.get("t"), t2)
                return "@CALL:%s@%s@%s@" % (kname, a2, "|".join(env2[v][0] for v in vars_))
            codes = []
            for c, (p, _, b) in zip(conds, arms):
                env2 = dict(env)
                if p[0] == "pid":
                    env2[p[1]] = (sv, t)
                codes.append((c, self.block(b, env2, call, want if want is not None else h.get("t")) if b[0] == "block" else self.expr(b, env2, call, want if want is not None else h.get("t"))))
            body = k(vp, h.get("t"), envk)
            env_sv = dict(env); env_sv["$" + sv] = (sv, t)
            callf = self.lift(kname, [(vp, h.get("t"))], vars_, params, env_sv, body)
            fix = self.fixer(kname, callf, vars_)
            chain = "(%s)" % fix(codes[-1][1])
            for c, code in reversed(codes[:-1]):
                chain = "if %s then (%s) else\n  %s" % (c, fix(code), chain)
            return "let %s := %s in\n  %s" % (sv, a, chain)
        return self.expr(scrut, env, on_scrut)

    def match_int_guards(self, a, t, arms, env, k, want):
        """integer match with guards: the arms in order, each condition = pattern && guard; the arms' values go to a join point"""
        sv = self.fresh("m")
        kname, vars_, params, envk = self.join([b for _, _, b in arms], env, None)
        vp = self.fresh("x")
        h = {}
        def call(a2, t2, env2):
            h["t"] = self.merge(h.get("t"), t2)
            return "@CALL:%s@%s@%s@" % (kname, a2, "|".join(env2[v][0] for v in vars_))
        codes = []
        for p, g, b in arms:
            c = self.pat_cond(p, sv)
            if g is not None:
                hg = {}
                def capg(a2, t2, env2):
                    hg["a"] = a2
                    return ""
                self.expr(g, env, capg, "bool")
                c = hg["a"] if c == "true" else "(%s && %s)" % (c, hg["a"])
            if b[0] == "macro" and b[1] == "unreachable":
                codes.append((c, "Panic PAssert"))
            else:
                codes.append((c, self.expr(b, env, call, want if want is not None else h.get("t"))))
        if codes[-1][0] != "true":
            raise Untranslatable("integer match without a catch-all arm")
        body = k(vp, h.get("t"), envk)
        env_sv = dict(env); env_sv["$" + sv] = (sv, t)
        callf = self.lift(kname, [(vp, h.get("t"))], vars_, params, env_sv, body)
        fix = self.fixer(kname, callf, vars_)
        chain = "(%s)" % fix(codes[-1][1])
        for c, code in reversed(codes[:-1]):
            chain = "if %s then (%s) else\n  %s" % (c, fix(code), chain)
        return "let %s := %s in\n  %s" % (sv, a, chain)

    def enum_pattern(self, p, ty, env):
        """Coq pattern text and the environment extended with the variables it binds"""
        if p[0] == "pwild":
            return "_", env
        if p[0] == "por":
            parts = []
            for q in p[1]:
                txt, e2 = self.enum_pattern(q, ty, env)
                if e2 is not env:
                    raise Untranslatable("bindings inside an or-pattern")
                parts.append(txt)
            return " | ".join(parts), env
        if p[0] == "pid" and p[1] in ENUMS[ty]:
            p = ("ppath", [ty, p[1]])          # a variant brought into scope by `use Enum::*`
        if p[0] == "pstruct":
            segs = p[1] if len(p[1]) == 2 else [ty] + p[1]
            pl = self.d.payload.get((ty, segs[1]), [])
            if not pl or not isinstance(pl[0], tuple) or [f for f, _ in pl] != [f for f, _ in p[2]]:
                raise Untranslatable("fields of the pattern %s" % "::".join(segs))
            p = ("pctor", segs, [q for _, q in p[2]])
            env2, names = dict(env), []
            if segs == [ty, "Coded"] and ty == "Macroblock":
                # the PB-frame fields are parsed for their bits only: the model's MbCoded drops them, and so must the pattern
                ignored = {"coded_block_pattern_b", "motion_vectors_b"}
                keep = [(q, fp) for q, fp in zip(p[2], pl) if fp[0] not in ignored]
                if any(q[0] not in ("pwild", "pid") or (q[0] == "pid" and not q[1].startswith("_")) for q, fp in zip(p[2], pl) if fp[0] in ignored):
                    raise Untranslatable("a PB-frame field of Macroblock::Coded is used")
                p = ("pctor", segs, [q for q, _ in keep])
                pl = [fp for _, fp in keep]
            for q, (fn, pt) in zip(p[2], pl):
                if q[0] == "pid":
                    v = self.fresh(q[1]); env2[q[1]] = (v, norm(pt)); names.append(v)
                elif q[0] == "pwild":
                    names.append("_")
                else:
                    raise Untranslatable("nested payload pattern")
            return "(%s %s)" % (ENUMS[ty][segs[1]], " ".join(names)), env2
        if p[0] in ("ppath", "pctor"):
            segs = p[1] if len(p[1]) == 2 else [ty] + p[1]
            if len(segs) != 2 or segs[0] not in (ty, "Self") or segs[1] not in ENUMS[ty]:
                raise Untranslatable("pattern %r on %s" % (segs, ty))
            p = (p[0], segs) + tuple(p[2:])
            ctor = ENUMS[ty][segs[1]]
            pl = self.d.payload.get((ty, segs[1]), [])
            if p[0] == "ppath":
                if pl:
                    raise Untranslatable("constructor pattern without its payload")
                return ctor, env
            if len(pl) != len(p[2]):
                raise Untranslatable("payload pattern arity")
            env2, names = dict(env), []
            for q, pt in zip(p[2], pl):
                if q[0] == "pid":
                    v = self.fresh(q[1]); env2[q[1]] = (v, norm(pt)); names.append(v)
                elif q[0] == "pwild":
                    names.append("_")
                else:
                    raise Untranslatable("nested payload pattern")
            return "(%s %s)" % (ctor, " ".join(names)), env2
        raise Untranslatable("pattern %r on an enum" % (p,))

    def match_enum(self, a, ty, arms, env, k, want):
        if any(g is not None for _, g, _ in arms):
            raise Untranslatable("match guard")
        pats = [self.enum_pattern(p, ty, env) for p, _, _ in arms]
        bodies = [b for _, _, b in arms]
        is_ret = lambda b: b[0] in ("return", "break", "continue")
        assemble = lambda codes: "match %s with\n  %s\n  end" % (a, "\n  ".join("| %s => (%s)" % (pt, c) for (pt, _), c in zip(pats, codes)))
        effects = any(self.has_return(b) or self.assigned(b, set()) for b in bodies if not is_ret(b))
        if not any(self.has_exit(b) for b in bodies) and not effects:
            h, codes = {}, []
            for (pt, env2), b in zip(pats, bodies):
                def cap(a2, t2, env3):
                    h["t"] = self.merge(h.get("t"), t2)
                    return a2
                codes.append(self.expr(b, env2, cap, want if want is not None else h.get("t")))
            return k("(%s)" % assemble(codes).replace("\n  ", " "), h["t"], env)
        if not any(self.has_exit(b) for b in bodies):
            kname, vars_, params, envk = self.join(bodies, env, None)
            if "$reader" not in vars_:
                vars_ = vars_ + ["$reader"]; rp = self.fresh("reader"); params = params + [rp]; envk["$reader"] = (rp, "reader")
            order = [v for v in vars_ if v != "$reader"] + ["$reader"]
            pn = dict(zip(vars_, params))
            vp = self.fresh("x")
            h = {}
            def tupv(a2, t2, env2):
                h["t"] = self.merge(h.get("t"), t2)
                return "Ok (%s)" % ", ".join([a2] + [env2[v][0] for v in order])
            codes = [(self.block(b, env2, tupv, want if want is not None else h.get("t")) if b[0] == "block" else self.expr(b, env2, tupv, want if want is not None else h.get("t")))
                     for (pt, env2), b in zip(pats, bodies)]
            return "let* (%s) := (%s) in\n  %s" % (", ".join([vp] + [pn[v] for v in order]), assemble(codes), k(vp, h.get("t"), envk))
        kname, vars_, params, envk = self.join([b for b in bodies if not is_ret(b)], env, None)
        vp = self.fresh("x")
        h = {}
        def call(a2, t2, env2):
            h["t"] = self.merge(h.get("t"), t2)
            return "@CALL:%s@%s@%s@" % (kname, a2, "|".join(env2[v][0] for v in vars_))
        codes = []
        for (pt, env2), b in zip(pats, bodies):
            if is_ret(b):
                codes.append(self.ret(b[1], env2) if b[0] == "return" else self.expr(b, env2, None))
            else:
                codes.append(self.block(b, env2, call, want if want is not None else h.get("t")) if b[0] == "block" else self.expr(b, env2, call, want if want is not None else h.get("t")))
        body = k(vp, h.get("t"), envk)
        callf = self.lift(kname, [(vp, h.get("t"))], vars_, params, env, body)
        fix = self.fixer(kname, callf, vars_)
        return assemble([fix(c) for c in codes])

    def match_result(self, code, rty, arms, env, k, want):
        """match on the Result of a parser call: the Ok arms see the value and the advanced reader, the Err arms the error and the
        reader as it was (the parser functions are transactions); a panic or fuel exhaustion of the callee propagates"""
        v, r2, ev = self.fresh("v"), self.fresh("r"), self.fresh("err")
        ok_arms, err_arms = [], []
        for p, g, b in arms:
            if p[0] == "pctor" and p[1] == ["Ok"] and len(p[2]) == 1:
                if g is not None:
                    raise Untranslatable("guard on an Ok arm")
                ok_arms.append((p[2][0], None, b))
            elif p[0] == "pctor" and p[1] == ["Err"] and len(p[2]) == 1 and p[2][0][0] in ("pid", "pwild"):
                err_arms.append((p[2][0], g, b))
            else:
                raise Untranslatable("arm %r of a match on a Result" % (p,))
        if not err_arms or err_arms[-1][1] is not None:
            raise Untranslatable("match on a Result without a final unguarded Err arm")
        env_ok = dict(env); env_ok["$reader"] = (r2, "reader")
        rt = resolve(rty)
        if isinstance(rt, str) and rt in ENUMS:
            ok_code = self.match_enum(v, rt, ok_arms, env_ok, k, want)
        elif rt == ("opt", "GroupOfBlocks"):
            ok_code = self.match_gob(v, ok_arms, env_ok, k, want)
        else:
            raise Untranslatable("match on a Result of %r" % (rt,))
        def arm_code(pat, b):
            env_e = dict(env)
            if pat[0] == "pid":
                env_e[pat[1]] = (ev, "Error")
            if b[0] == "return" and b[1] is not None and b[1][0] == "call" and b[1][1] == ("var", "Err") and len(b[1][2]) == 1 \
                    and pat[0] == "pid" and b[1][2][0] == ("var", pat[1]):
                return "Err %s" % ev
            return self.block(b, env_e, k, want) if b[0] == "block" else self.expr(b, env_e, k, want)
        chain = arm_code(err_arms[-1][0], err_arms[-1][2])
        for pat, g, b in reversed(err_arms[:-1]):
            if g is None:
                raise Untranslatable("unreachable Err arm")
            env_e = dict(env)
            if pat[0] == "pid":
                env_e[pat[1]] = (ev, "Error")
            h = {}
            def cap(a, t, env3):
                h["c"] = a
                return ""
            self.expr(g, env_e, cap, "bool")
            chain = "if %s then (%s) else\n  (%s)" % (h["c"], arm_code(pat, b), chain)
        return ("match %s with\n  | Ok (%s, %s) => (%s)\n  | Err %s => (%s)\n  | Panic pn => Panic pn\n  | OutOfFuel => OutOfFuel\n  end"
                % (code, v, r2, ok_code, ev, chain))

    def match_gob(self, a, arms, env, k, want):
        """match on Option<GroupOfBlocks>: the translated decode_gob never builds a GroupOfBlocks (its Coq type is unit), so the
        fields a `Some` arm reads are taken through uninterpreted functions gob_<field> (section variables of the generated file)"""
        none = [x for x in arms if (x[0][0] == "pid" and x[0][1] == "None") or (x[0][0] == "ppath" and x[0][1] == ["None"])]
        some = [x for x in arms if x[0][0] == "pctor" and x[0][1] == ["Some"] and len(x[0][2]) == 1 and x[0][2][0][0] == "pstruct"
                and x[0][2][0][1] == ["GroupOfBlocks"]]
        if len(none) != 1 or len(some) != 1 or len(arms) != 2:
            raise Untranslatable("arms of the match on Option<GroupOfBlocks>")
        g = self.fresh("g")
        ft = dict(self.d.structs.get("GroupOfBlocks", []))
        env_s = dict(env)
        for f, pat in some[0][0][2][0][2]:
            if pat[0] == "pid" and not pat[1].startswith("_"):
                if f not in ft or not is_int(norm(ft[f])):
                    raise Untranslatable("field %s of GroupOfBlocks" % f)
                env_s[pat[1]] = ("(gob_%s %s)" % (f, g), norm(ft[f]))
                self.gob_fields.add(f)
            elif pat[0] not in ("pid", "pwild"):
                raise Untranslatable("pattern of a GroupOfBlocks field")
        body = lambda b, e: self.block(b, e, k, want) if b[0] == "block" else self.expr(b, e, k, want)
        return "match %s with\n  | None => (%s)\n  | Some %s => (%s)\n  end" % (a, body(none[0][2], env), g, body(some[0][2], env_s))

    def match_option(self, a, t, arms, env, k, want):
        some = [x for x in arms if x[0][0] == "pctor" and x[0][1] == ["Some"]]
        none = [x for x in arms if (x[0][0] == "pid" and x[0][1] == "None") or (x[0][0] == "ppath" and x[0][1] == ["None"])]
        if len(some) != 1 or len(none) != 1 or len(arms) != 2:
            raise Untranslatable("match on an Option with other than Some/None arms")
        if not self.has_exit(some[0][2]) and not self.has_exit(none[0][2]):
            kname, vars_, params, envk = self.join([some[0][2], none[0][2]], env, None)
            if "$reader" not in vars_:
                vars_ = vars_ + ["$reader"]; rp = self.fresh("reader"); params = params + [rp]; envk["$reader"] = (rp, "reader")
            order = [v for v in vars_ if v != "$reader"] + ["$reader"]
            pn = dict(zip(vars_, params))
            vp = self.fresh("x")
            h = {}
            def tupv(a2, t2, env2):
                h["t"] = self.merge(h.get("t"), t2)
                return "Ok (%s)" % ", ".join([a2] + [env2[v][0] for v in order])
            sp = some[0][0][2][0]
            sv = self.fresh("s")
            some_body = lambda env2: (self.block(some[0][2], env2, tupv, want) if some[0][2][0] == "block" else self.expr(some[0][2], env2, tupv, want))
            s_code = self.bind_pat(sp, sv, t[1], env, some_body)
            n_code = self.block(none[0][2], env, tupv, want if want is not None else h.get("t")) if none[0][2][0] == "block" else self.expr(none[0][2], env, tupv, want if want is not None else h.get("t"))
            return "let* (%s) := (match %s with\n  | Some %s => (%s)\n  | None => (%s)\n  end) in\n  %s" % (
                ", ".join([vp] + [pn[v] for v in order]), a, sv, s_code, n_code, k(vp, h.get("t"), envk))
        kname, vars_, params, envk = self.join([some[0][2], none[0][2]], env, None)
        vp = self.fresh("x")
        h = {}
        def call(a2, t2, env2):
            h["t"] = self.merge(h.get("t"), t2)
            return "@CALL:%s@%s@%s@" % (kname, a2, "|".join(env2[v][0] for v in vars_))
        sp = some[0][0][2][0]
        sv = self.fresh("s")
        def some_body(env):
            if some[0][2][0] == "return":
                return self.ret(some[0][2][1], env)
            return self.block(some[0][2], env, call, want) if some[0][2][0] == "block" else self.expr(some[0][2], env, call, want)
        s_code = self.bind_pat(sp, sv, t[1], env, some_body)
        if none[0][2][0] == "return":
            n_code = self.ret(none[0][2][1], env)
        else:
            n_code = self.block(none[0][2], env, call, want if want is not None else h.get("t")) if none[0][2][0] == "block" else self.expr(none[0][2], env, call, want if want is not None else h.get("t"))
        body = k(vp, h.get("t"), envk)
        callf = self.lift(kname, [(vp, h.get("t"))], vars_, params, env, body)
        fix = self.fixer(kname, callf, vars_)
        return "match %s with\n  | Some %s => (%s)\n  | None => (%s)\n  end" % (a, sv, fix(s_code), fix(n_code))

    # ---- return position
    def ret(self, e, env):
        """code of type res (T * reader) for `return e` / the tail expression e of a function returning Result<T>"""
        if self.ret_wrap is not None:
            saved, self.ret_wrap = self.ret_wrap, None
            try:
                inner = self.ret(e, env)
            finally:
                self.ret_wrap = saved
            return "%s (%s)" % (saved, inner)
        if e is None and self.pure and getattr(self, "out_param", None):
            return "Ok %s" % env[self.out_param][0]
        while e[0] == "paren":
            e = e[1]
        if e[0] == "call" and e[1] == ("var", "Ok") and len(e[2]) == 1:
            return self.expr(e[2][0], env, lambda a, t, env: self.ok(a, t, env), self.rty)
        if e[0] == "call" and e[1] == ("var", "Err") and len(e[2]) == 1:
            return "Err %s" % self.error_of(e[2][0])
        if e[0] == "mcall" and e[1] == ("var", "reader"):
            argkind, arg, mk, t, kind = self.reader_call(e, env, self.rty)
            if kind != "vr":
                raise Untranslatable("reader call in return position")
            self.unify(t, self.rty, "returned read")
            if argkind is None:
                return mk(None)
            return self.expr(arg, env, lambda n, tn, env: mk(n), "u32")
        if e[0] == "if" and e[3] is not None:
            return self.expr(e[1], env, lambda c, tc, env: "if %s then (%s) else (%s)" % (c, self.ret_block(e[2], env), self.ret_block(e[3], env)), "bool")
        if e[0] == "match":
            return self.match_ret(e, env)
        if e[0] == "block":
            return self.ret_block(e, env)
        if self.pure:
            return self.expr(e, env, lambda a, t, env: self.ok(a, t, env), self.rty)
        raise Untranslatable("return of %s" % e[0])

    def ok(self, a, t, env):
        t = resolve(t)
        if isinstance(t, tuple) and t[0] == "structval":
            t = t[1]
        if self.rty is not None:
            try:
                self.merge(t, self.rty)
            except Untranslatable:
                pass
        if self.union_none and a == "None":
            return "Ok (None, %s)" % self.union_none          # with_transaction_union: Ok(None) leaves the reader where it was
        if self.pure and getattr(self, "out_param", None):
            return "Ok %s" % env[self.out_param][0]
        if self.pure:
            return "Ok %s" % a
        return "Ok (%s, %s)" % (a, env["$reader"][0])

    union_none = None
    pure = False          # a function without a reader (decoder/cpu): the result is `res T`, Panic for Rust panics

    def ret_block(self, blk, env):
        if blk[0] != "block":
            return self.ret(blk, env)
        if blk[2] is None:
            # the last statement must end the function on every path
            return self.stmts(blk[1], 0, None, env, lambda a, t, env: self.bad("block falls through without a value"), None)
        tail = blk[2]
        return self.stmts_ret(blk[1], 0, tail, env)

    def stmts_ret(self, ss, i, tail, env):
        if i == len(ss):
            return self.ret(tail, env)
        # reuse stmts with a continuation that evaluates the tail in return position
        marker = ("block", ss[i:], None)
        return self.stmts(ss[i:], 0, None, env, None, None) if False else self._stmts_then(ss, i, env, lambda env: self.ret(tail, env))

    def _stmts_then(self, ss, i, env, fin):
        if i == len(ss):
            return fin(env)
        # wrap: translate statement i with `rest` = remaining statements then fin
        saved = self.stmts
        s = ss[i]
        one = ("block", [s], None)
        return self.stmts([s], 0, None, env, lambda a, t, env: self._stmts_then(ss, i + 1, env, fin), None)

    def match_ret(self, e, env):
        scrut, arms = e[1], e[2]
        def on_scrut(a, t, env):
            t = resolve(t)
            if not (is_int(t) or isinstance(t, TVar)):
                raise Untranslatable("match on %r in return position" % (t,))
            if isinstance(t, TVar):
                self.unify(t, "i32", "literal patterns")
            sv = self.fresh("m")
            conds = [self.pat_cond(p, sv) for p, _, _ in arms]
            if conds[-1] != "true":
                raise Untranslatable("integer match without a catch-all arm")
            chain = "(%s)" % self.ret(arms[-1][2], env)
            for c, (p, _, b) in reversed(list(zip(conds[:-1], arms[:-1]))):
                chain = "if %s then (%s) else\n  %s" % (c, self.ret(b, env), chain)
            return "let %s := %s in\n  %s" % (sv, a, chain)
        return self.expr(scrut, env, on_scrut)


def translate_parser_fn(src, defs, name, coq_name, known, aliases, extra_params=(), union=False, on_demand=None):
    params, ret, body = find_fn_generic(src.toks, name)
    em = PEmitter(defs, known, aliases)
    em.on_demand = on_demand
    env = {}
    binders = []
    ptys = []
    for pn, pt in params:
        t = norm(alias_expand(pt, aliases))
        if t == "reader":
            continue
        cn = "a_" + pn
        env[pn] = (cn, t)
        binders.append("(%s : %s)" % (cn, coq_param_type(t)))
        ptys.append(t)
    r0 = "r0"
    env["$reader"] = (r0, "reader")
    rt = norm(alias_expand(ret, aliases))
    if not (isinstance(rt, tuple) and rt[0] == "result"):
        raise Untranslatable("function does not return Result")
    em.rty = rt[1]
    if union:
        em.union_none = r0
    # unwrap `reader.with_transaction(|reader| BODY)`
    inner = body
    if body[0] == "block" and not body[1] and body[2] is not None and body[2][0] == "mcall" and body[2][1] == ("var", "reader") \
            and body[2][2] in ("with_transaction", "with_transaction_union") and body[2][3] and body[2][3][0][0] == "closure":
        inner = body[2][3][0][2]
    em.fname = coq_name
    code = em.ret_block(inner, env) if inner[0] == "block" else em.ret(inner, env)
    rt_coq = coq_of(em.rty, defs)
    lifted_texts, lifted_names, code = em.resolve_lifted(code, rt_coq)
    text = "".join(em.finish(l) + "\n" for l in lifted_texts)
    for n in lifted_names:
        text += "#[global] Hint Unfold %s : pgen.\n" % n
    if lifted_names:
        text += "\n"
    text += "Definition %s %s (r0 : reader) : res (%s * reader) :=\n  %s.\n" % (coq_name, " ".join(binders), rt_coq, em.finish(code))
    return text, (coq_name, ptys, em.rty)


def coq_of(t, defs):
    t = resolve(t)
    if isinstance(t, TVar):
        return "Z"            # an integer type still to be inferred: every integer type is Z
    if isinstance(t, str):
        if t in INTS or t in FLAGS:
            return "Z"
        if t == "bool":
            return "bool"
        if t == "unit":
            return "unit"
        if t in COQ_OF_TYPE:
            return COQ_OF_TYPE[t]
        if t == "Picture":
            return "picture"
        if t in ("CustomPictureFormat", "CustomPictureClock", "ScalabilityLayer") and t in defs.structs:
            return "(" + " * ".join(coq_of(norm(ft), defs) for _, ft in defs.structs[t]) + ")"
        return "unit"          # a type the translated functions never construct (BackchannelMessage, ...)
    if t[0] == "opt":
        return "(option %s)" % coq_of(t[1], defs)
    if t[0] == "tup":
        return "(" + " * ".join(coq_of(x, defs) for x in t[1]) + ")"
    if t[0] == "structval":
        return coq_of(t[1], defs)
    if t[0] == "list":
        return "(list %s)" % coq_of(t[1], defs)
    if t[0] == "mvarr":
        return "(" + " * ".join(["(Z * Z)"] * t[1]) + ")"
    if t[0] == "vec":
        el = resolve(t[1])
        return "(list %s)" % (coq_of(el, defs) if el is not None and not isinstance(el, TVar) else "Z")
    raise Untranslatable("no Coq type for %r" % (t,))


def translate_pure_fn(src, defs, name, coq_name, known, aliases):
    """a function of decoder/cpu without a reader: `res T`, Panic where Rust panics"""
    params, ret, body = find_fn_generic(src.toks, name)
    em = PEmitter(defs, known, aliases)
    em.pure = True
    em.fname = coq_name
    env, binders = {}, []
    for pn, pt in params:
        t = norm(alias_expand(pt, aliases))
        cn = "a_" + pn
        env[pn] = (cn, t)
        binders.append("(%s : %s)" % (cn, coq_param_type(t)))
    env["$reader"] = ("tt", "reader")
    em.rty = norm(alias_expand(ret, aliases))
    code = em.ret_block(body, env)
    rt_coq = coq_of(em.rty, defs)
    lifted_texts, lifted_names, code = em.resolve_lifted(code, rt_coq)
    fixrt = lambda l: l.replace("res (%s * reader)" % rt_coq, "res %s" % rt_coq)
    text = "".join(fixrt(em.finish(l)) + "\n" for l in lifted_texts)
    for n in lifted_names:
        text += "#[global] Hint Unfold %s : pgen.\n" % n
    if lifted_names:
        text += "\n"
    text += "Definition %s %s : res %s :=\n  %s.\n" % (coq_name, " ".join(binders), rt_coq, em.finish(code))
    return text, (coq_name, None, em.rty)


def coq_param_type(t):
    if t == "DecoderOption":
        return "dec_opts"
    if isinstance(t, str) and (t in FLAGS or t in INTS):
        return "Z"
    if t == "bool":
        return "bool"
    if isinstance(t, tuple) and t[0] in ("list", "mvarr"):
        return coq_of(t, None)
    if isinstance(t, tuple) and t[0] == "opt" and t[1] == "Picture":
        return "option picture"
    if t == "Picture":
        return "picture"
    if isinstance(t, str) and t in COQ_OF_TYPE:
        return COQ_OF_TYPE[t]
    raise Untranslatable("parameter type %r" % (t,))


def alias_expand(t, aliases):
    if isinstance(t, str):
        return alias_expand(aliases[t], aliases) if t in aliases else t
    if t is None:
        return t
    if t[0] == "ref":
        return ("ref", t[1], alias_expand(t[2], aliases))
    if t[0] == "tup":
        return ("tup", [alias_expand(x, aliases) for x in t[1]])
    if t[0] == "gen":
        return ("gen", t[1], [alias_expand(x, aliases) for x in t[2]])
    return t


def find_fn_generic(toks, name):
    """like find_fn but for `fn name<R>(...) -> T where R: Read { .. }`"""
    hits = [i for i in range(len(toks) - 1) if toks[i] == ("id", "fn") and toks[i + 1] == ("id", name)]
    if len(hits) != 1:
        raise Untranslatable("fn `%s` found %d times" % (name, len(hits)))
    p = Parser(toks)
    p.i = hits[0] + 2
    if p.at("<"):
        depth = 0
        while True:
            q = p.next()
            if q == ("op", "<"):
                depth += 1
            elif q == ("op", ">"):
                depth -= 1
                if depth == 0:
                    break
    p.expect("(")
    params = []
    while not p.at(")"):
        if p.at("&"):
            p.next()
            if p.at_id("mut"):
                p.next()
            if not p.at_id("self"):
                raise Untranslatable("bad self parameter")
            p.next()
            params.append(("self", "Self"))
            if p.at(","):
                p.next()
            continue
        if p.at_id("mut"):
            p.next()
        nm = p.expect_id()
        if nm == "self":
            params.append(("self", "Self"))
        else:
            p.expect(":")
            params.append((nm, p.ty()))
        if p.at(","):
            p.next()
    p.expect(")")
    ret = None
    if p.at("->"):
        p.next()
        ret = p.ty()
    if p.at_id("where"):
        while not p.at("{"):
            p.next()
    return params, ret, p.block()


def find_aliases(toks):
    out = {}
    for i in range(len(toks) - 3):
        if toks[i] == ("id", "type") and toks[i + 1][0] == "id" and toks[i + 2] == ("op", "="):
            p = Parser(toks)
            p.i = i + 3
            try:
                out[toks[i + 1][1]] = p.ty()
            except Untranslatable:
                pass
    return out


HEADER = ("(* GENERATED by tools/rs2v.py (rs2v_parser) from h263/src/parser/picture.rs -- do not edit.\n"
          "   The picture-header field decoders, translated from the Rust source; a function the translator could not handle\n"
          "   is absent and named in gen/STATUS.json, so the bridge lemma about it stops compiling. *)\n"
          "From H263V Require Import base.Prelude base.Checked model.Types model.Tables model.Reader model.Header.\n"
          "Create HintDb pgen.\n\n")

UNION = {"decode_picture", "decode_gob"}
FUNCTIONS = ["decode_ptype", "decode_plusptype", "decode_sorenson_ptype", "decode_cpm_and_psbi", "decode_cpfmt", "decode_cpcfc",
             "decode_uui", "decode_sss", "decode_elnum_rlnum", "decode_rpsmf", "decode_trpi", "decode_bcm", "decode_rprp", "decode_trb", "decode_dbquant",
             "decode_picture", "decode_cbpb", "decode_dquant", "decode_motion_vector", "decode_macroblock"]
FILES = {"decode_cbpb": "h263/src/parser/macroblock.rs", "decode_dquant": "h263/src/parser/macroblock.rs",
         "decode_motion_vector": "h263/src/parser/macroblock.rs", "decode_macroblock": "h263/src/parser/macroblock.rs"}


MB_FUNCTIONS = ["decode_cbpb", "decode_dquant", "decode_motion_vector", "decode_macroblock", "decode_gob", "decode_block"]
OTHER_FILE = {"decode_gob": "h263/src/parser/gob.rs", "decode_block": "h263/src/parser/block.rs"}


def gen_parser(repo, status, write):
    known = {}
    _gen_group(repo, status, write, "GenPHeader.v", "h263/src/parser/picture.rs", [f for f in FUNCTIONS if f not in MB_FUNCTIONS], known, HEADER, statics=True)
    _gen_group(repo, status, write, "GenPMacroblock.v", "h263/src/parser/macroblock.rs", MB_FUNCTIONS, {},
               HEADER.replace("h263/src/parser/picture.rs", "h263/src/parser/macroblock.rs").replace("picture-header field decoders", "macroblock-layer header decoders")
                     .replace("model.Header.\n", "model.Header model.Syntax.\n").replace("Create HintDb pgen.", "Create HintDb pgenmb."),
               hintdb="pgenmb")
    gen_pure(repo, status, write)
    gen_state(repo, status, write)
    gen_gather(repo, status, write)
    gen_loop(repo, status, write)
    gen_rle(repo, status, write)


def gen_pure(repo, status, write):
    fname, rel = "GenPMvPred.v", "h263/src/decoder/cpu/mvd_pred.rs"
    body = ("(* GENERATED by tools/rs2v.py (rs2v_parser) from %s -- do not edit. *)\n"
            "From H263V Require Import base.Prelude base.Checked model.Types model.Tables model.Reader model.Header model.Syntax model.Recon.\n"
            "Create HintDb pgenmv.\n\n" % rel)
    functions = ["predict_candidate", "halfpel_decode", "mv_decode"]
    try:
        src = Source(repo, rel)
        defs = Defs(repo)
    except Untranslatable as e:
        for f in functions:
            status["parser.p_" + f] = "untranslatable: %s" % e
        write(fname, body)
        return
    # constants of impl HalfPel: `pub const NAME: Self = Self(N);`
    hp = {}
    try:
        tt = Source(repo, "h263/src/types.rs").toks
        for i in range(len(tt) - 9):
            if tt[i] == ("id", "const") and tt[i + 2] == ("op", ":") and tt[i + 3] == ("id", "Self") and tt[i + 4] == ("op", "=") \
                    and tt[i + 5] == ("id", "Self") and tt[i + 6] == ("op", "(") and tt[i + 7][0] == "num" and tt[i + 8] == ("op", ")"):
                hp[tt[i + 1][1]] = parse_int(tt[i + 7][1])
    except Untranslatable:
        pass
    PEmitter.halfpel_consts = hp
    known_pure = {}
    for f in functions:
        key = "parser.p_" + f
        try:
            text, sig = translate_pure_fn(src, defs, f, "p_" + f, known_pure, {})
            known_pure[f] = sig
            body += text.replace(": pgen.", ": pgenmv.") + "\n"
            status[key] = "ok"
        except Untranslatable as e:
            body += "(* p_%s: untranslatable: %s *)\n\n" % (f, str(e).replace("*)", "* )"))
            status[key] = "untranslatable: %s" % e
    write(fname, body)


def contains_call(node, name):
    if isinstance(node, tuple):
        if node and node[0] == "call" and node[1] == ("var", name):
            return True
        return any(contains_call(x, name) for x in node)
    if isinstance(node, list):
        return any(contains_call(x, name) for x in node)
    return False


def state_writes(node, out):
    """writes to the decoder state inside an AST: assignments to self.<field>, and calls of methods of self other than the
    read-only ones"""
    READ_ONLY = {"is_sorenson", "get_last_picture", "get_reference_picture", "parse_picture"}
    if isinstance(node, tuple):
        if node and node[0] == "assign":
            t = node[1]
            if t[0] == "field" and t[1] == ("var", "self"):
                out.append("self.%s %s .." % (t[2], node[2]))
        if node and node[0] == "mcall":
            r = node[1]
            if r == ("var", "self") and node[2] not in READ_ONLY:
                out.append("self.%s()" % node[2])
            if r[0] == "field" and r[1] == ("var", "self") and node[2] in ("insert", "remove", "remove_entry", "clear", "retain", "entry",
                                                                           "get_mut", "take", "replace", "insert_unique_unchecked", "drain"):
                out.append("self.%s.%s()" % (r[2], node[2]))
        for x in node:
            state_writes(x, out)
    elif isinstance(node, list):
        for x in node:
            state_writes(x, out)
    return out


def gen_gather(repo, status, write):
    """decoder/cpu/gather.rs, fn gather: the loop over the macroblocks (reference check, size guard, the six gather_block calls
    with their positions and vectors, the chroma vector); gather_block itself stays the model's function"""
    fname, rel = "GenPGather.v", "h263/src/decoder/cpu/gather.rs"
    body = ("(* GENERATED by tools/rs2v.py (rs2v_parser) from %s -- do not edit. *)\n"
            "From H263V Require Import base.Prelude base.Checked model.Types model.Tables model.Reader model.Header model.Syntax model.Recon.\n"
            "Create HintDb pgengather.\n\n" % rel)
    key = "parser.p_gather"
    try:
        src = Source(repo, rel)
        defs = Defs(repo)
        params, ret, fbody = find_fn_generic(src.toks, "gather")
        em = PEmitter(defs, {}, {})
        em.pure = True
        em.fname = "p_gather"
        em.rty = "DecodedPicture"
        em.out_param = "new_picture"
        env = {"mb_types": ("a_mb_types", ("list", "MacroblockType")),
               "reference_picture": ("a_reference_picture", ("opt", "DecodedPicture")),
               "mvs": ("a_mvs", ("list", ("mvarr", 4))),
               "mb_per_line": ("a_mb_per_line", "usize"),
               "new_picture": ("a_new_picture", "DecodedPicture"), "$reader": ("tt", "reader")}
        if [pn for pn, _ in params] != ["mb_types", "reference_picture", "mvs", "mb_per_line", "new_picture"]:
            raise Untranslatable("parameters of gather")
        code = em.ret_block(fbody, env)
        lt, ln, code = em.resolve_lifted(code, "decoded_picture")
        body += "".join(em.finish(l).replace("res (decoded_picture * reader)", "res decoded_picture") + "\n" for l in lt)
        for n in ln:
            body += "#[global] Hint Unfold %s : pgengather.\n" % n
        body += ("\nDefinition p_gather (a_mb_types : list mbtype) (a_reference_picture : option decoded_picture) (a_mvs : list mv4) "
                 "(a_mb_per_line : Z) (a_new_picture : decoded_picture) : res decoded_picture :=\n  %s.\n" % em.finish(code))
        status[key] = "ok"
    except Untranslatable as e:
        body += "(* p_gather: untranslatable: %s *)\n" % str(e).replace("*)", "* )")
        status[key] = "untranslatable: %s" % e
    write(fname, body)


def gen_rle(repo, status, write):
    """decoder/cpu/rle.rs, fn inverse_rle: the whole function (block index and bounds check, the DC-only cases, the coefficient
    loop with its early return, the classification into Zero / Dc / Horiz / Vert / Full).  The f32 block is an integer matrix
    in the translation: every value stored is an i16 (|v| <= 2048 after the clamp, an IntraDc level), which binary32 holds exactly."""
    fname, rel = "GenPRle.v", "h263/src/decoder/cpu/rle.rs"
    body = ("(* GENERATED by tools/rs2v.py (rs2v_parser) from %s -- do not edit. *)\n"
            "From H263V Require Import base.Prelude base.Checked model.Types model.Tables model.Reader model.Header model.Syntax model.Recon.\n"
            "Create HintDb pgenrle.\n\n"
            "(* m[y][x] = v on the 8x8 block with computed indices: out of bounds panics *)\n"
            "Definition mat_set_c (m : list (list Z)) (x y v : Z) : res (list (list Z)) :=\n"
            "  if (0 <=? x) && (x <? 8) && (0 <=? y) && (y <? 8) then Ok (mat_set m x y v) else Panic PIndex.\n\n" % rel)
    key = "parser.p_inverse_rle"
    try:
        src = Source(repo, rel)
        defs = Defs(repo)
        params, ret, fbody = find_fn_generic(src.toks, "inverse_rle")
        if [pn for pn, _ in params] != ["encoded_block", "levels", "pos", "blk_per_line", "quant"] or ret is not None:
            raise Untranslatable("signature of inverse_rle")
        em = PEmitter(defs, {}, {})
        em.pure = True
        em.fname = "p_inverse_rle"
        em.rty = ("list", "DecodedDctBlock")
        em.out_param = "levels"
        em.static_lists = {"DEZIGZAG_MAPPING": ("dezigzag_mapping", ("tup", ["u8", "u8"]))}
        env = {"encoded_block": ("a_block", "Block"), "levels": ("a_levels", ("list", "DecodedDctBlock")),
               "pos": ("a_pos", ("tup", ["usize", "usize"])), "blk_per_line": ("a_bpl", "usize"), "quant": ("a_quant", "u8"),
               "$reader": ("tt", "reader")}
        stm = list(fbody[1]) + ([("expr", fbody[2])] if fbody[2] is not None else [])
        code = em.stmts(stm, 0, None, env, lambda a, t, envx: "Ok %s" % envx["levels"][0], None)
        rt = "(list dct_block)"
        lt, ln, code = em.resolve_lifted(code, rt)
        # a function without a reader: the reader slot of the emitter's tuples holds tt
        fixrt = lambda l: l.replace("res (%s * reader)" % rt, "res %s" % rt).replace("(tt : reader)", "(tt : unit)")
        body += "".join(fixrt(em.finish(l)) + "\n" for l in lt)
        for n in ln:
            body += "#[global] Hint Unfold %s : pgenrle.\n" % n
        body += ("\nDefinition p_inverse_rle (a_block : block) (a_levels : list dct_block) (a_pos : Z * Z) (a_bpl a_quant : Z) : res (list dct_block) :=\n  %s.\n"
                 % em.finish(code))
        status[key] = "ok"
    except Untranslatable as e:
        body += "(* p_inverse_rle: untranslatable: %s *)\n" % str(e).replace("*)", "* )")
        status[key] = "untranslatable: %s" % e
    write(fname, body)


def gen_loop(repo, status, write):
    """decoder/state.rs, decode_next_picture: the body of the `Ok(Macroblock::Coded { .. })` arm of the macroblock loop (with the
    position and the fresh motion-vector array computed before the match) as a function of the loop variables, and the
    statements between the loop and the commit phase (padding, gather, the three idct_channel calls)"""
    fname, rel = "GenPLoop.v", "h263/src/decoder/state.rs"
    body = ("(* GENERATED by tools/rs2v.py (rs2v_parser) from %s -- do not edit. *)\n"
            "From H263V Require Import base.Prelude base.Checked model.Types model.Tables model.Reader model.Header model.Syntax model.Recon model.Decoder gen.GenPGather gen.GenPMacroblock gen.GenPState.\n"
            "Create HintDb pgenloop.\n\n" % rel)
    keys = ["parser.p_coded", "parser.p_epilogue", "parser.p_loop_body", "parser.p_setup", "parser.p_decode_next_picture"]
    L = ("list", "DecodedDctBlock")
    try:
        src = Source(repo, rel)
        defs = Defs(repo)
        params, ret, fbody = find_fn_generic(src.toks, "decode_next_picture")
        tail = fbody[2]
        if not (fbody[0] == "block" and tail is not None and tail[0] == "mcall" and tail[2] == "with_transaction" and tail[3] and tail[3][0][0] == "closure"):
            raise Untranslatable("decode_next_picture is not `reader.with_transaction(|reader| { .. })`")
        stmts = tail[3][0][2][1]
        li = [i for i, st in enumerate(stmts) if st[0] == "expr" and st[1][0] in ("loop", "while")]
        if len(li) != 1:
            raise Untranslatable("the macroblock loop")
        if stmts[li[0]][1][0] == "while":
            # `while c { body }` is `loop { if !c { break; } body }`
            wc, wb = stmts[li[0]][1][1], stmts[li[0]][1][2]
            if wb[0] != "block":
                raise Untranslatable("while body")
            guard = ("expr", ("if", ("un", "!", ("paren", wc)), ("block", [("expr", ("break",))], None), None))
            stmts = list(stmts)
            stmts[li[0]] = ("expr", ("loop", ("block", [guard] + list(wb[1]), wb[2])))
        lbody = stmts[li[0]][1][1]
        if lbody[0] != "block":
            raise Untranslatable("loop body")
        lst = lbody[1]
        # ---- the Coded arm
        try:
            mi = [i for i, st in enumerate(lst) if st[0] == "let" and st[3] is not None and st[3][0] == "match" and st[3][1] == ("var", "mb")]
            if len(mi) != 1:
                raise Untranslatable("`let .. = match mb { .. }` in the loop")
            # the locals computed before the match (position, fresh vector array, ..), but not the parser call that is matched on
            pre = [st for st in lst[:mi[0]] if st[0] == "let" and not contains_call(st, "decode_macroblock")]
            arms = [a for a in lst[mi[0]][3][2] if a[0][0] == "pctor" and a[0][1] == ["Ok"] and len(a[0][2]) == 1 and a[0][2][0][0] == "pstruct"
                    and a[0][2][0][1] == ["Macroblock", "Coded"]]
            if len(arms) != 1 or arms[0][1] is not None or arms[0][2][0] != "block":
                raise Untranslatable("the Ok(Macroblock::Coded { .. }) arm")
            fields = dict(arms[0][0][2][0][2])
            FT = {"mb_type": ("a_mb_type", "MacroblockType"), "coded_block_pattern": ("a_cbp", "CodedBlockPattern"), "d_quantizer": ("a_dq", ("opt", "i8")),
                  "motion_vector": ("a_mv", ("opt", "MotionVector")), "addl_motion_vectors": ("a_addl", ("opt", ("mvarr", 3)))}
            em = PEmitter(defs, {"decode_block": ("decode_block", ["DecoderOption", "Picture", "PictureOption", "MacroblockType", "bool"], "Block")}, {})
            em.model_fns = {"predict_candidate": ("predict_candidate", "res", "MotionVector"), "mv_decode": ("mv_decode", "pure", "MotionVector")}
            em.fname, em.rty = "p_coded", None
            env = {"self": ("a_self", "H263State"), "self.decoder_options": ("a_o", "DecoderOption"),
                   "in_force_quantizer": ("a_q", "u8"), "predictor_vectors": ("a_pvs", ("list", ("mvarr", 4))),
                   "macroblock_types": ("a_types", ("list", "MacroblockType")), "macroblocks_after_gob": ("a_after", "usize"),
                   "mb_per_line": ("a_mpl", "usize"), "next_decoded_picture": ("a_np", "DecodedPicture"), "next_running_options": ("a_running", "PictureOption"),
                   "luma_levels": ("a_luma", L), "chroma_b_levels": ("a_cb", L), "chroma_r_levels": ("a_cr", L),
                   "level_dimensions": ("a_lev", ("tup", ["usize", "usize"])), "$reader": ("r0", "reader")}
            for f, pat in fields.items():
                if pat[0] == "pid" and not pat[1].startswith("_"):
                    if f not in FT:
                        raise Untranslatable("field %s of Macroblock::Coded is used" % f)
                    env[pat[1]] = FT[f]
            names = ["in_force_quantizer", "motion_vectors", "luma_levels", "chroma_b_levels", "chroma_r_levels"]
            def fin(a, t, envx):
                return "Ok ((%s, %s), %s)" % (", ".join(envx[n][0] for n in names), a, envx["$reader"][0])
            blk = arms[0][2]
            code = em.stmts(pre + blk[1], 0, blk[2], env, fin, None)
            rt = "(Z * mv4 * list dct_block * list dct_block * list dct_block * mbtype)"
            lt, ln, code = em.resolve_lifted(code, rt)
            body += "".join(em.finish(l) + "\n" for l in lt)
            for n in ln:
                body += "#[global] Hint Unfold %s : pgenloop.\n" % n
            body += ("Definition p_coded (a_o : dec_opts) (a_np : decoded_picture) (a_running a_mpl : Z) (a_lev : Z * Z) (a_after : Z) (a_mb_type : mbtype) (a_cbp : cbp) "
                     "(a_dq : option Z) (a_mv : option mv) (a_addl : option (mv * mv * mv)) (a_q : Z) (a_pvs : list mv4) (a_types : list mbtype) "
                     "(a_luma a_cb a_cr : list dct_block) (r0 : reader) : res (%s * reader) :=\n  %s.\n\n" % (rt, em.finish(code)))
            status[keys[0]] = "ok"
        except Untranslatable as ex:
            body += "(* p_coded: untranslatable: %s *)\n\n" % str(ex).replace("*)", "* )")
            status[keys[0]] = "untranslatable: %s" % ex
        # ---- the whole loop body: one iteration as a function of the loop variables
        try:
            em = PEmitter(defs, {"decode_block": ("decode_block", ["DecoderOption", "Picture", "PictureOption", "MacroblockType", "bool"], "Block")}, {})
            em.model_fns = {"predict_candidate": ("predict_candidate", "res", "MotionVector"), "mv_decode": ("mv_decode", "pure", "MotionVector")}
            em.result_fns = {"decode_macroblock": ("decode_macroblock", "Macroblock"), "decode_gob": ("p_decode_gob", ("opt", "GroupOfBlocks"))}
            em.gob_fields = set()
            em.fname, em.rty = "p_loop", None
            lvars = ["in_force_quantizer", "predictor_vectors", "macroblock_types", "macroblocks_after_gob", "luma_levels", "chroma_b_levels", "chroma_r_levels"]
            assigned_in_loop = em.assigned(lbody, set())
            outer = {st[1][1] for st in stmts[:li[0]] if st[0] == "let" and st[1][0] == "pid"}
            carried = sorted((assigned_in_loop & outer))
            if set(carried) != set(lvars):
                raise Untranslatable("the variables the loop updates are %s" % ", ".join(carried))
            em.loop_vars = lvars + ["$reader"]
            env = {"self": ("a_self", "H263State"), "self.decoder_options": ("a_o", "DecoderOption"),
                   "in_force_quantizer": ("a_q", "u8"), "predictor_vectors": ("a_pvs", ("list", ("mvarr", 4))),
                   "macroblock_types": ("a_types", ("list", "MacroblockType")), "macroblocks_after_gob": ("a_after", "usize"),
                   "mb_per_line": ("a_mpl", "usize"), "mb_height": ("a_mbh", "usize"),
                   "next_decoded_picture": ("a_np", "DecodedPicture"), "next_running_options": ("a_running", "PictureOption"),
                   "luma_levels": ("a_luma", L), "chroma_b_levels": ("a_cb", L), "chroma_r_levels": ("a_cr", L),
                   "level_dimensions": ("a_lev", ("tup", ["usize", "usize"])), "$reader": ("r0", "reader")}
            def fin(a, t, envx):
                return "Ok (true, (%s))" % ", ".join(envx[n][0] for n in em.loop_vars)
            if lbody[2] is not None:
                raise Untranslatable("the loop body ends in an expression")
            code = em.stmts(lst, 0, None, env, fin, None)
            st_t = "p_loop_state"
            rt = "(bool * %s)" % st_t
            lt, ln, code = em.resolve_lifted(code, rt)
            fixrt = lambda l: l.replace("res (%s * reader)" % rt, "res %s" % rt)
            body += "Definition p_loop_state := (Z * list mv4 * list mbtype * Z * list dct_block * list dct_block * list dct_block * reader)%type.\n\n"
            body += "Section Loop.\n"
            for f in sorted(em.gob_fields):
                body += ("(* a field of a GroupOfBlocks: decode_gob as translated never builds one (GenPMacroblock.v: its Coq type is unit),\n"
                         "   so the arm that reads it is dead and the bridge holds for every way of reading it *)\n"
                         "Variable gob_%s : unit -> Z.\n" % f)
            body += "\n" + "".join(fixrt(em.finish(l)) + "\n" for l in lt)
            body += ("Definition p_loop_body (a_o : dec_opts) (a_np : decoded_picture) (a_running a_mpl a_mbh : Z) (a_lev : Z * Z) (s : p_loop_state) : res %s :=\n"
                     "  let '(a_q, a_pvs, a_types, a_after, a_luma, a_cb, a_cr, r0) := s in\n  %s.\n\n" % (rt, em.finish(code)))
            body += "End Loop.\n"
            for n in ln:
                body += "#[global] Hint Unfold %s : pgenloop.\n" % n
            body += ("\n(* the `loop`: iterate the body until it says stop *)\n"
                     "Definition p_loop (gob_quantizer : unit -> Z) (fuel : nat) (a_o : dec_opts) (a_np : decoded_picture) (a_running a_mpl a_mbh : Z) (a_lev : Z * Z) (s : p_loop_state) : res p_loop_state :=\n"
                     "  loop_fuel fuel (p_loop_body %sa_o a_np a_running a_mpl a_mbh a_lev) s.\n\n" % ("gob_quantizer " if "quantizer" in em.gob_fields else ""))
            status["parser.p_loop_body"] = "ok"
        except Untranslatable as ex:
            body += "(* p_loop_body: untranslatable: %s *)\n\n" % str(ex).replace("*)", "* )")
            status["parser.p_loop_body"] = "untranslatable: %s" % ex
        # ---- between the loop and the commit phase
        try:
            idx = max([i for i, st in enumerate(stmts) if contains_call(st, "idct_channel") or contains_call(st, "gather")], default=None)
            if idx is None or idx <= li[0]:
                raise Untranslatable("no reconstruction step after the loop")
            epi = stmts[li[0] + 1: idx + 1]
            caps = {}
            for st in stmts[:li[0]]:
                if st[0] == "let" and st[1][0] == "pid" and st[3] is not None and st[3][0] == "call" and st[3][1] == ("path", ["Vec", "with_capacity"]) and len(st[3][2]) == 1:
                    caps[st[1][1]] = st[3][2][0]
            if set(caps) != {"predictor_vectors", "macroblock_types"} or caps["predictor_vectors"] != caps["macroblock_types"]:
                raise Untranslatable("the two Vec::with_capacity(..) of the macroblock vectors")
            em = PEmitter(defs, {}, {})
            em.fname, em.rty, em.pure = "p_epilogue", None, True
            env = {"predictor_vectors": ("a_pvs", ("list", ("mvarr", 4))), "macroblock_types": ("a_types", ("list", "MacroblockType")),
                   "predictor_vectors.capacity": ("a_total", "usize"), "macroblock_types.capacity": ("a_total", "usize"),
                   "reference_picture": ("a_reference", ("opt", "DecodedPicture")), "mb_per_line": ("a_mpl", "usize"),
                   "next_decoded_picture": ("a_np", "DecodedPicture"), "output_dimensions": ("a_dims", ("tup", ["u16", "u16"])),
                   "luma_levels": ("a_luma", L), "chroma_b_levels": ("a_cb", L), "chroma_r_levels": ("a_cr", L), "$reader": ("tt", "reader")}
            code = em.stmts(epi, 0, None, env, lambda a, t, envx: "Ok %s" % envx["next_decoded_picture"][0], None)
            if em.lifted:
                raise Untranslatable("control flow with early exits between the loop and the commit phase")
            # the capacity of both vectors, as an expression of mb_per_line and mb_height
            em2 = PEmitter(defs, {}, {})
            em2.pure = True
            h = {}
            def cap(a, t, envx):
                h["a"] = a
                return "Ok %s" % a
            capcode = em2.expr(caps["predictor_vectors"], {"mb_per_line": ("a_mpl", "usize"), "mb_height": ("a_mbh", "usize"), "$reader": ("tt", "reader")}, cap, "usize")
            body += "(* the capacity both macroblock vectors are created with *)\nDefinition p_capacity (a_mpl a_mbh : Z) : res Z :=\n  %s.\n\n" % em2.finish(capcode)
            body += ("Definition p_epilogue (a_types : list mbtype) (a_pvs : list mv4) (a_total : Z) (a_reference : option decoded_picture) (a_mpl : Z) "
                     "(a_np : decoded_picture) (a_dims : Z * Z) (a_luma a_cb a_cr : list dct_block) : res decoded_picture :=\n  %s.\n" % em.finish(code))
            status[keys[1]] = "ok"
        except Untranslatable as ex:
            body += "(* p_epilogue: untranslatable: %s *)\n" % str(ex).replace("*)", "* )")
            status[keys[1]] = "untranslatable: %s" % ex
        # ---- between the prologue and the loop: the loop variables' initial values, the new picture, the level arrays
        try:
            last = max([i for i, st in enumerate(stmts[:li[0]]) if st[0] == "let" and st[1] == ("pid", "level_dimensions")], default=None)
            if last is None:
                raise Untranslatable("`let level_dimensions` not found")
            setup = stmts[last + 1: li[0]]
            em = PEmitter(defs, {}, {})
            em.fname, em.rty, em.pure = "p_setup", None, True
            env = {"next_picture": ("a_hdr", "Picture"), "format": ("a_fmt", "SourceFormat"), "mb_per_line": ("a_mpl", "usize"), "mb_height": ("a_mbh", "usize"),
                   "level_dimensions": ("a_lev", ("tup", ["usize", "usize"])), "$reader": ("tt", "reader")}
            names = ["in_force_quantizer", "predictor_vectors", "macroblock_types", "macroblocks_after_gob", "next_decoded_picture", "luma_levels", "chroma_b_levels", "chroma_r_levels"]
            def fin_setup(a, t, envx):
                missing = [n for n in names if n not in envx]
                if missing:
                    raise Untranslatable("the statements before the loop do not define %s" % ", ".join(missing))
                return "Ok (%s)" % ", ".join(envx[n][0] for n in names)
            code = em.stmts(setup, 0, None, env, fin_setup, None)
            if em.lifted:
                raise Untranslatable("control flow with early exits between the prologue and the loop")
            body += ("\n(* the statements between the prologue and the loop *)\n"
                     "Definition p_setup (a_hdr : picture) (a_fmt : source_format) (a_mpl a_mbh : Z) (a_lev : Z * Z) : "
                     "res (Z * list mv4 * list mbtype * Z * decoded_picture * list dct_block * list dct_block * list dct_block) :=\n  %s.\n" % em.finish(code))
            status["parser.p_setup"] = "ok"
            # ---- the whole closure of decode_next_picture, as the five translated ranges in sequence
            pro = stmts[:last + 1]
            refs = [st for st in pro if st[0] == "let" and st[1] == ("pid", "reference_picture")]
            if len(refs) != 1 or refs[0][3] != ("mcall", ("var", "self"), "get_reference_picture", []):
                raise Untranslatable("`let reference_picture = self.get_reference_picture()` in the prologue")
            if not all(status.get(k) == "ok" for k in ("parser.p_loop_body", "parser.p_epilogue", "parser.p_setup")):
                raise Untranslatable("a part of decode_next_picture is untranslated")
            body += ("\n(* decode_next_picture: the statements of the transaction closure are five consecutive ranges - the prologue (p_prologue,\n"
                     "   GenPState.v), the set-up, the macroblock loop, the reconstruction (p_epilogue) and the commit phase (p_store_picture,\n"
                     "   GenPState.v) - and the variables that cross from one range to the next are the ones passed here.  The loop runs on fuel\n"
                     "   (one unit per iteration; the number of unread bits plus one is enough: proofs/Total3.v). *)\n"
                     "Definition p_decode_next_picture (gob_quantizer : unit -> Z) (a_self : state) (r0 : reader) : res (state * reader) :=\n"
                     "  let* (x, r) := p_prologue a_self r0 in\n"
                     "  let '(next_picture, next_running_options, format, output_dimensions, mb_per_line, mb_height, level_dimensions) := x in\n"
                     "  let reference_picture := get_reference_picture a_self in\n"
                     "  let* (q, pvs, types, after, np, luma, cb, cr) := p_setup next_picture format mb_per_line mb_height level_dimensions in\n"
                     "  let* (q', pvs', types', after', luma', cb', cr', r') :=\n"
                     "    p_loop gob_quantizer (S (length (rbits r))) (st_opts a_self) np next_running_options mb_per_line mb_height level_dimensions\n"
                     "           (q, pvs, types, after, luma, cb, cr, r) in\n"
                     "  let* total := p_capacity mb_per_line mb_height in\n"
                     "  let* np' := p_epilogue types' pvs' total reference_picture mb_per_line np output_dimensions luma' cb' cr' in\n"
                     "  Ok (p_store_picture a_self np', r').\n")
            status["parser.p_decode_next_picture"] = "ok"
        except Untranslatable as ex:
            body += "\n(* p_setup / p_decode_next_picture: untranslatable: %s *)\n" % str(ex).replace("*)", "* )")
            status.setdefault("parser.p_setup", "untranslatable: %s" % ex)
            status["parser.p_decode_next_picture"] = "untranslatable: %s" % ex
    except Untranslatable as e:
        for k in keys:
            status.setdefault(k, "untranslatable: %s" % e)
        body += "(* untranslatable: %s *)\n" % str(e).replace("*)", "* )")
    write(fname, body)


def gen_state(repo, status, write):
    """decoder/state.rs, decode_next_picture: the commit phase (every statement after the last reconstruction step) as a
    function of the decoder state and the new picture, and two facts about the rest: no statement before the commit phase
    writes the decoder state, and the commit phase has no fallible step."""
    fname, rel = "GenPState.v", "h263/src/decoder/state.rs"
    body = ("(* GENERATED by tools/rs2v.py (rs2v_parser) from %s -- do not edit. *)\n"
            "From Coq Require Import String.\n"
            "From H263V Require Import base.Prelude base.Checked model.Types model.Tables model.Reader model.Header model.Syntax model.Recon model.Decoder.\n\n"
            "(* HashMap::remove_entry on the picture map: the entry of a key, taken out of the map *)\n"
            "Definition pm_remove_entry (m : pmap) (k : Z) : option (Z * decoded_picture) * pmap :=\n"
            "  match pm_get m k with Some v => (Some (k, v), pm_remove m k) | None => (None, m) end.\n\n" % rel)
    keys = ["parser.p_store_picture", "parser.p_prefix_state_writes"]
    try:
        src = Source(repo, rel)
        defs = Defs(repo)
        params, ret, fbody = find_fn_generic(find_impl_tokens(src.toks, "decode_next_picture"), "decode_next_picture")
        tail = fbody[2]
        if not (fbody[0] == "block" and tail is not None and tail[0] == "mcall" and tail[1] == ("var", "reader")
                and tail[2] == "with_transaction" and tail[3] and tail[3][0][0] == "closure"):
            raise Untranslatable("decode_next_picture is not `reader.with_transaction(|reader| { .. })`")
        outer_writes = state_writes(fbody[1], [])
        clo = tail[3][0][2]
        if clo[0] != "block":
            raise Untranslatable("closure body")
        stmts, ctail = clo[1], clo[2]
        idx = max([i for i, st in enumerate(stmts) if contains_call(st, "idct_channel") or contains_call(st, "gather")], default=None)
        if idx is None:
            raise Untranslatable("no reconstruction step (gather / idct_channel) found")
        prefix, commit = stmts[:idx + 1], stmts[idx + 1:]
        writes = outer_writes + state_writes(prefix, [])
        body += "(* writes to the decoder state before the commit phase (assignments to self.<field>, mutating calls on self) *)\n"
        body += "Definition p_prefix_state_writes : list string :=\n  [%s]%%string.\n\n" % "; ".join('"%s"' % w for w in writes)
        status[keys[1]] = "ok"
        # the commit phase must end the closure with Ok(()) and contain no fallible step
        em = PEmitter(defs, {}, {})
        fallible = any(em.has_return(st) for st in commit)
        okunit = ctail is not None and ctail[0] == "call" and ctail[1] == ("var", "Ok")
        body += "Definition p_commit_has_fallible_step : bool := %s.\n" % ("true" if fallible else "false")
        body += "Definition p_commit_ends_with_ok : bool := %s.\n\n" % ("true" if okunit else "false")
        # constants of the file
        toks = src.toks
        for i in range(len(toks) - 5):
            if toks[i] == ("id", "const") and toks[i + 2] == ("op", ":") and toks[i + 4] == ("op", "=") and toks[i + 5][0] == "num" and toks[i + 3][1] in INTS:
                em.known[toks[i + 1][1]] = ("static", zlit(parse_int(toks[i + 5][1])), toks[i + 3][1])
        em.pure = True
        env = {"self": ("a_self", "H263State"),
               "self.last_picture": ("(last_picture a_self)", ("opt", "u16")),
               "self.reference_picture": ("(reference_picture a_self)", ("opt", "u16")),
               "self.reference_states": ("(reference_states a_self)", "PictureMap"),
               "next_decoded_picture": ("a_np", "DecodedPicture"), "$reader": ("tt", "reader")}
        def fin(a, t, env2):
            return "mkState (st_opts a_self) %s %s (running_options a_self) %s" % (
                env2["self.last_picture"][0], env2["self.reference_picture"][0], env2["self.reference_states"][0])
        code = em.stmts(commit, 0, None, env, fin, None)
        if em.lifted:
            raise Untranslatable("control flow with early exits in the commit phase")
        body += "Definition p_store_picture (a_self : state) (a_np : decoded_picture) : state :=\n  %s.\n" % em.finish(code)
        status[keys[0]] = "ok"
        # the prologue: from the header to the macroblock counts
        key = "parser.p_prologue"
        try:
            last = max([i for i, st in enumerate(prefix) if st[0] == "let" and st[1] == ("pid", "level_dimensions")], default=None)
            if last is None:
                raise Untranslatable("`let level_dimensions` not found")
            pro = prefix[:last + 1]
            em3 = PEmitter(defs, {"OPPTYPE_OPTIONS": ("static", "opptype_options", "PictureOption"),
                                  "MPPTYPE_OPTIONS": ("static", "mpptype_options", "PictureOption")}, {})
            em3.fname = "p_prologue"
            em3.rty = None
            env3 = {"self": ("a_self", "H263State"),
                    "self.last_picture": ("(last_picture a_self)", ("opt", "u16")),
                    "self.reference_picture": ("(reference_picture a_self)", ("opt", "u16")),
                    "self.running_options": ("(running_options a_self)", "PictureOption"),
                    "self.reference_states": ("(reference_states a_self)", "PictureMap"), "$reader": ("r0", "reader")}
            names = ["next_picture", "next_running_options", "format", "output_dimensions", "mb_per_line", "mb_height", "level_dimensions"]
            def fin3(a, t, envx):
                return "Ok ((%s), %s)" % (", ".join(envx[n][0] for n in names), envx["$reader"][0])
            code3 = em3.stmts(pro, 0, None, env3, fin3, None)
            rt3 = "(picture * Z * source_format * (Z * Z) * Z * Z * (Z * Z))"
            lt, ln, code3 = em3.resolve_lifted(code3, rt3)
            body += "\n" + "".join(em3.finish(l) + "\n" for l in lt)
            body += "Create HintDb pgenstate.\n" + "".join("#[global] Hint Unfold %s : pgenstate.\n" % n for n in ln)
            body += "Definition p_prologue (a_self : state) (r0 : reader) : res (%s * reader) :=\n  %s.\n" % (rt3, em3.finish(code3))
            body = body.replace("From H263V Require Import base.Prelude base.Checked model.Types", "From H263V Require Import model.F64.\nFrom H263V Require Import base.Prelude base.Checked model.Types", 1) if "model.F64" not in body else body
            status[key] = "ok"
        except Untranslatable as ex:
            body += "\n(* p_prologue: untranslatable: %s *)\n" % str(ex).replace("*)", "* )")
            status[key] = "untranslatable: %s" % ex
        # cleanup_buffers
        key = "parser.p_cleanup_buffers"
        try:
            prm, rt, fb = find_fn_generic(src.toks, "cleanup_buffers")
            em4 = PEmitter(defs, {}, {})
            em4.pure = True
            em4.fname, em4.rty = "p_cleanup_buffers", None
            env4 = {"self": ("a_self", "H263State"),
                    "self.last_picture": ("(last_picture a_self)", ("opt", "u16")),
                    "self.reference_picture": ("(reference_picture a_self)", ("opt", "u16")),
                    "self.reference_states": ("(reference_states a_self)", "PictureMap"), "$reader": ("tt", "reader")}
            def fin4(a, t, env2):
                return "mkState (st_opts a_self) %s %s (running_options a_self) %s" % (
                    env2["self.last_picture"][0], env2["self.reference_picture"][0], env2["self.reference_states"][0])
            stm = list(fb[1]) + ([("expr", fb[2])] if fb[2] is not None else [])
            code4 = em4.stmts(stm, 0, None, env4, fin4, None)
            if em4.lifted:
                raise Untranslatable("control flow with early exits in cleanup_buffers")
            body += "\nDefinition p_cleanup_buffers (a_self : state) : state :=\n  %s.\n" % em4.finish(code4)
            status[key] = "ok"
        except Untranslatable as ex:
            body += "\n(* p_cleanup_buffers: untranslatable: %s *)\n" % str(ex).replace("*)", "* )")
            status[key] = "untranslatable: %s" % ex
        # the two look-ups of the state
        for fn in ("get_last_picture", "get_reference_picture"):
            key = "parser.p_" + fn
            try:
                prm, rt, fb = find_fn_generic(src.toks, fn)
                em2 = PEmitter(defs, {}, {})
                em2.pure = True
                em2.fname = "p_" + fn
                em2.rty = ("opt", "DecodedPicture")
                env2 = {"self": ("a_self", "H263State"),
                        "self.last_picture": ("(last_picture a_self)", ("opt", "u16")),
                        "self.reference_picture": ("(reference_picture a_self)", ("opt", "u16")),
                        "self.reference_states": ("(reference_states a_self)", "PictureMap"), "$reader": ("tt", "reader")}
                code2 = em2.ret_block(fb, env2)
                if em2.lifted:
                    raise Untranslatable("join points in %s" % fn)
                body += "\nDefinition p_%s (a_self : state) : res (option decoded_picture) :=\n  %s.\n" % (fn, em2.finish(code2))
                status[key] = "ok"
            except Untranslatable as ex:
                body += "\n(* p_%s: untranslatable: %s *)\n" % (fn, str(ex).replace("*)", "* )"))
                status[key] = "untranslatable: %s" % ex
    except Untranslatable as e:
        for k in keys:
            status.setdefault(k, "untranslatable: %s" % e)
        body += "(* untranslatable: %s *)\n" % str(e).replace("*)", "* )")
    write(fname, body)


def find_impl_tokens(toks, fn_name):
    return toks


def _gen_group(repo, status, write, fname, rel, functions, known, header, statics=False, hintdb="pgen"):
    body = header
    try:
        src = Source(repo, rel)
        defs = Defs(repo)
        aliases = {k: v for k, v in find_aliases(src.toks).items() if v is not None}
    except Untranslatable as e:
        for f in functions:
            status["parser.p_" + f] = "untranslatable: %s" % e
        write(fname, body)
        return
    toks = src.toks
    if statics:
        for i in range(len(toks) - 5):
            if toks[i] == ("id", "static") and toks[i + 1] == ("id", "ref") and toks[i + 3] == ("op", ":"):
                name = toks[i + 2][1]
                key = "parser.p_" + name
                try:
                    p = Parser(toks)
                    p.i = i + 4
                    ty = norm(p.ty())
                    p.expect("=")
                    e = p.expr()
                    em = PEmitter(defs, known, aliases)
                    h = {}
                    def cap(a, t, env):
                        h["a"] = a
                        return ""
                    em.expr(e, {}, cap, ty)
                    body += "Definition p_%s : Z := %s.\n\n" % (name, h["a"])
                    known[name] = ("static", "p_" + name, ty)
                    status[key] = "ok"
                except Untranslatable as ex:
                    status[key] = "untranslatable: %s" % ex
    for f in functions:
        key = "parser.p_" + f
        try:
            fsrc = src if f not in OTHER_FILE else Source(repo, OTHER_FILE[f])
            helpers = []
            def on_demand(h, fsrc=fsrc, helpers=helpers, depth=[0]):
                if depth[0] > 3:
                    raise Untranslatable("helper functions nested too deeply")
                depth[0] += 1
                try:
                    htext, hsig = translate_parser_fn(fsrc, defs, h, "p_" + h, known, aliases, on_demand=on_demand)
                finally:
                    depth[0] -= 1
                known[h] = hsig
                # a helper is unfolded by the bridge proofs like a join point
                helpers.append(htext.replace(": pgen.", ": %s." % hintdb) + "#[global] Hint Unfold p_%s : %s.\n\n" % (h, hintdb))
            text, sig = translate_parser_fn(fsrc, defs, f, "p_" + f, known, aliases, union=(f in UNION), on_demand=on_demand)
            known[f] = sig
            body += "".join(helpers) + text.replace(": pgen.", ": %s." % hintdb) + "\n"
            status[key] = "ok"
        except Untranslatable as e:
            body += "(* p_%s: untranslatable: %s *)\n\n" % (f, str(e).replace("*)", "* )"))
            status[key] = "untranslatable: %s" % e
        except RecursionError:
            status[key] = "untranslatable: expression too deep"
    write(fname, body)


if __name__ == "__main__":
    st = {}
    def w(fname, text):
        print(text)
    gen_parser(os.environ.get("VERIF_REPO", "/repo"), st, w)
    for k in sorted(st):
        print(k, st[k])
