(* Conversions between OCaml ints / strings and the extracted Coq numbers. *)
open BinNums

let rec pos_of_int (n : int) : positive =
  if n = 1 then Coq_xH
  else if n land 1 = 0 then Coq_xO (pos_of_int (n lsr 1))
  else Coq_xI (pos_of_int (n lsr 1))

let z_of_int (n : int) : coq_Z =
  if n = 0 then Z0 else if n > 0 then Zpos (pos_of_int n) else Zneg (pos_of_int (-n))

let rec int_of_pos (p : positive) : int =
  match p with
  | Coq_xH -> 1
  | Coq_xO q -> 2 * int_of_pos q
  | Coq_xI q -> 2 * int_of_pos q + 1

let int_of_z (z : coq_Z) : int =
  match z with Z0 -> 0 | Zpos p -> int_of_pos p | Zneg p -> - (int_of_pos p)

let rec nat_of_int (n : int) : Datatypes.nat =
  if n <= 0 then Datatypes.O else Datatypes.S (nat_of_int (n - 1))

let rec int_of_nat (n : Datatypes.nat) : int =
  match n with Datatypes.O -> 0 | Datatypes.S m -> 1 + int_of_nat m

let hexval c =
  match c with
  | '0' .. '9' -> Char.code c - 48
  | 'a' .. 'f' -> Char.code c - 87
  | 'A' .. 'F' -> Char.code c - 55
  | _ -> failwith "bad hex"

(* "-" denotes the empty byte string *)
let bytes_of_hex (s : string) : int list =
  if s = "-" then []
  else begin
    let n = String.length s / 2 in
    let rec go i acc =
      if i < 0 then acc
      else go (i - 1) ((hexval s.[2 * i] * 16 + hexval s.[2 * i + 1]) :: acc)
    in
    go (n - 1) []
  end

let zs_of_hex s = Stdlib.List.map z_of_int (bytes_of_hex s)

let hex_of_ints (l : int list) : string =
  if l = [] then "-"
  else begin
    let b = Buffer.create (2 * Stdlib.List.length l) in
    Stdlib.List.iter (fun x -> Buffer.add_string b (Printf.sprintf "%02x" (x land 255))) l;
    Buffer.contents b
  end

let hex_of_zs l = hex_of_ints (Stdlib.List.map int_of_z l)

let bits_of_bytes (l : int list) : bool list =
  Stdlib.List.concat_map
    (fun b -> Stdlib.List.init 8 (fun i -> (b lsr (7 - i)) land 1 = 1))
    l

let split_ws (s : string) : string list =
  Stdlib.List.filter (fun x -> x <> "") (String.split_on_char ' ' (String.trim s))

let read_lines (path : string) : string list =
  let ic = open_in path in
  let rec go acc =
    match input_line ic with
    | l -> go (l :: acc)
    | exception End_of_file -> close_in ic; Stdlib.List.rev acc
  in
  go []

let panic_name (p : Prelude.panic_kind) : string =
  match p with
  | Prelude.POverflow -> "overflow"
  | Prelude.PIndex -> "index"
  | Prelude.PDivZero -> "divzero"
  | Prelude.PAssert -> "assert"
  | Prelude.PShift -> "shift"
