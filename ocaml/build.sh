#!/bin/sh
# Build the OCaml driver from the extracted model (no packages beyond the stdlib).
set -e
cd "$(dirname "$0")"
mkdir -p _build
cp extracted/*.ml extracted/*.mli zutil.ml driver.ml _build/
cd _build
# dependency order via ocamldep
ORDER=$(ocamlfind ocamldep -sort *.mli *.ml)
ocamlfind ocamlopt -O3 -w -a -o ../driver.exe $ORDER 2>/dev/null || ocamlfind ocamlopt -w -a -o ../driver.exe $ORDER
