(* Runs the extracted Coq model / spec on case files; one output line per case.
   Usage: driver <suite> <args...>.  Output goes to stdout. *)
open Zutil

let z = z_of_int
let i = int_of_z

(* ---------------- deblock ---------------- *)
let suite_deblock_img path =
  Stdlib.List.iter
    (fun line ->
      match split_ws line with
      | [ idx; w; _h; s; hex ] ->
          let data = zs_of_hex hex in
          (match Deblock.deblock data (z (int_of_string w)) (z (int_of_string s)) with
          | Prelude.Ok out -> Printf.printf "%s ok %s\n" idx (hex_of_zs out)
          | Prelude.Panic _ -> Printf.printf "%s panic\n" idx
          | _ -> Printf.printf "%s other\n" idx)
      | [] -> ()
      | _ -> failwith ("bad case line: " ^ line))
    (read_lines path)

let suite_deblock_spec path =
  Stdlib.List.iter
    (fun line ->
      match split_ws line with
      | [ idx; w; h; s; hex ] ->
          let data = zs_of_hex hex in
          let out = Deblock.annexJ_flat data (z (int_of_string w)) (z (int_of_string h)) (z (int_of_string s)) in
          Printf.printf "%s ok %s\n" idx (hex_of_zs out)
      | [] -> ()
      | _ -> failwith ("bad case line: " ^ line))
    (read_lines path)

(* Kernel tables for the exhaustive sweep on the implementation side:
   d1 as a function of (x = A-4B+4C-D, s); d2 as a function of (y = A-D, d1).
   Obtained from the *spec* kernel annexJ by choosing representative samples. *)
let suite_deblock_tables () =
  (* d1: choose a=d=0, then x = 4(c-b): not every x is reachable that way, so
     evaluate the spec's own sub-terms instead. *)
  for s = 1 to 12 do
    for x = -1275 to 1275 do
      let dd = BinInt.Z.quot (z x) (z 8) in
      let d1 = Deblock.updown_ramp dd (z s) in
      Printf.printf "d1 %d %d %d\n" s x (i d1)
    done
  done;
  for d1 = -12 to 12 do
    for y = -255 to 255 do
      let lim = BinInt.Z.abs (BinInt.Z.quot (z d1) (z 2)) in
      let d2 = Prelude.clamp (BinInt.Z.opp lim) lim (BinInt.Z.quot (z y) (z 4)) in
      Printf.printf "d2 %d %d %d\n" d1 y (i d2)
    done
  done

(* Direct kernel evaluation, spec / scalar model / lane model, on listed cases. *)
let suite_deblock_kernel path =
  Stdlib.List.iter
    (fun line ->
      match split_ws line with
      | [ idx; a; b; c; d; s ] ->
          let f k =
            let (((a', b'), c'), d') = k (z (int_of_string a)) (z (int_of_string b))
                (z (int_of_string c)) (z (int_of_string d)) (z (int_of_string s)) in
            Printf.sprintf "%d,%d,%d,%d" (i a') (i b') (i c') (i d') in
          Printf.printf "%s spec=%s scalar=%s lane=%s\n" idx (f Deblock.annexJ)
            (f Deblock.process) (f Deblock.process_lane)
      | [] -> ()
      | _ -> failwith ("bad case line: " ^ line))
    (read_lines path)

(* ---------------- yuv ---------------- *)
let parse_range s =
  match Stdlib.List.map int_of_string (String.split_on_char ':' s) with
  | [ lo; hi; st ] ->
      let rec go x acc = if x > hi then Stdlib.List.rev acc else go (x + st) (x :: acc) in
      go lo []
  | _ -> failwith "range"

(* binary table: 3 bytes (r,g,b) per triple of the product, from the model kernel `px`;
   with "spec" as first argument from the spec formula instead *)
let suite_yuv_table which outp ys cbs crs =
  let oc = open_out_bin outp in
  let zc = Array.init 256 z in
  Stdlib.List.iter (fun y ->
    Stdlib.List.iter (fun cb ->
      Stdlib.List.iter (fun cr ->
        let (((r, g), b), _a) =
          if which = "spec" then Yuv.spec_px zc.(y) zc.(cb) zc.(cr) else Yuv.px zc.(y) zc.(cb) zc.(cr) in
        output_byte oc (i r); output_byte oc (i g); output_byte oc (i b))
        (parse_range crs)) (parse_range cbs)) (parse_range ys);
  close_out oc

let suite_yuv_img which path =
  Stdlib.List.iter
    (fun line ->
      match split_ws line with
      | [ idx; w; yh; cbh; crh ] ->
          let ys = zs_of_hex yh and cbs = zs_of_hex cbh and crs = zs_of_hex crh in
          let w = int_of_string w in
          if which = "spec" then begin
            let h = if w = 0 then 0 else Stdlib.List.length ys / w in
            Printf.printf "%s ok %s\n" idx (hex_of_zs (Yuv.rgba_spec_flat ys cbs crs (z w) (z h)))
          end else
          (match Yuv.yuv420_to_rgba ys cbs crs (z w) with
          | Prelude.Ok out -> Printf.printf "%s ok %s\n" idx (hex_of_zs out)
          | Prelude.Panic _ -> Printf.printf "%s panic\n" idx
          | _ -> Printf.printf "%s other\n" idx)
      | [] -> ()
      | _ -> failwith ("bad case line: " ^ line))
    (read_lines path)

let suite_strength_table () =
  Printf.printf "model %s\n"
    (String.concat "," (Stdlib.List.map (fun x -> string_of_int (i x)) Deblock.quant_to_strength));
  Printf.printf "spec %s\n"
    (String.concat "," (Stdlib.List.map (fun x -> string_of_int (i x)) Deblock.table_J2))

let () =
  match Array.to_list Sys.argv with
  | _ :: "deblock-img" :: p :: _ -> suite_deblock_img p
  | _ :: "deblock-spec" :: p :: _ -> suite_deblock_spec p
  | _ :: "deblock-tables" :: _ -> suite_deblock_tables ()
  | _ :: "deblock-kernel" :: p :: _ -> suite_deblock_kernel p
  | _ :: "strength-table" :: _ -> suite_strength_table ()
  | _ :: "yuv-table" :: which :: o :: a :: b :: c :: _ -> suite_yuv_table which o a b c
  | _ :: "yuv-img" :: which :: p :: _ -> suite_yuv_img which p
  | _ -> prerr_endline "usage: driver <suite> [file]"; exit 2
