(* Runs the extracted Coq model / spec on case files; one output line per case.
   Usage: driver <suite> <args...>.  Output goes to stdout. *)
open Zutil

let z = z_of_int
let i = int_of_z

(* ---------------- deblock ---------------- *)
let suite_deblock_img path =
  Stdlib.List.iter
    (fun line ->
      match split_ws line with
      | [ idx; w; _h; s; hex ] ->
          let data = zs_of_hex hex in
          (match Deblock.deblock data (z (int_of_string w)) (z (int_of_string s)) with
          | Prelude.Ok out -> Printf.printf "%s ok %s\n" idx (hex_of_zs out)
          | Prelude.Panic _ -> Printf.printf "%s panic\n" idx
          | _ -> Printf.printf "%s other\n" idx)
      | [] -> ()
      | _ -> failwith ("bad case line: " ^ line))
    (read_lines path)

let suite_deblock_spec path =
  Stdlib.List.iter
    (fun line ->
      match split_ws line with
      | [ idx; w; h; s; hex ] ->
          let data = zs_of_hex hex in
          let out = Deblock.annexJ_flat data (z (int_of_string w)) (z (int_of_string h)) (z (int_of_string s)) in
          Printf.printf "%s ok %s\n" idx (hex_of_zs out)
      | [] -> ()
      | _ -> failwith ("bad case line: " ^ line))
    (read_lines path)

(* Kernel tables for the exhaustive sweep on the implementation side:
   d1 as a function of (x = A-4B+4C-D, s); d2 as a function of (y = A-D, d1).
   Obtained from the *spec* kernel annexJ by choosing representative samples. *)
let suite_deblock_tables () =
  (* d1: choose a=d=0, then x = 4(c-b): not every x is reachable that way, so
     evaluate the spec's own sub-terms instead. *)
  for s = 1 to 12 do
    for x = -1275 to 1275 do
      let dd = BinInt.Z.quot (z x) (z 8) in
      let d1 = Deblock.updown_ramp dd (z s) in
      Printf.printf "d1 %d %d %d\n" s x (i d1)
    done
  done;
  for d1 = -12 to 12 do
    for y = -255 to 255 do
      let lim = BinInt.Z.abs (BinInt.Z.quot (z d1) (z 2)) in
      let d2 = Prelude.clamp (BinInt.Z.opp lim) lim (BinInt.Z.quot (z y) (z 4)) in
      Printf.printf "d2 %d %d %d\n" d1 y (i d2)
    done
  done

(* Direct kernel evaluation, spec / scalar model / lane model, on listed cases. *)
let suite_deblock_kernel path =
  Stdlib.List.iter
    (fun line ->
      match split_ws line with
      | [ idx; a; b; c; d; s ] ->
          let f k =
            let (((a', b'), c'), d') = k (z (int_of_string a)) (z (int_of_string b))
                (z (int_of_string c)) (z (int_of_string d)) (z (int_of_string s)) in
            Printf.sprintf "%d,%d,%d,%d" (i a') (i b') (i c') (i d') in
          Printf.printf "%s spec=%s scalar=%s lane=%s\n" idx (f Deblock.annexJ)
            (f Deblock.process) (f Deblock.process_lane)
      | [] -> ()
      | _ -> failwith ("bad case line: " ^ line))
    (read_lines path)

(* ---------------- yuv ---------------- *)
let parse_range s =
  match Stdlib.List.map int_of_string (String.split_on_char ':' s) with
  | [ lo; hi; st ] ->
      let rec go x acc = if x > hi then Stdlib.List.rev acc else go (x + st) (x :: acc) in
      go lo []
  | _ -> failwith "range"

(* binary table: 3 bytes (r,g,b) per triple of the product, from the model kernel `px`;
   with "spec" as first argument from the spec formula instead *)
let suite_yuv_table which outp ys cbs crs =
  let oc = open_out_bin outp in
  let zc = Array.init 256 z in
  Stdlib.List.iter (fun y ->
    Stdlib.List.iter (fun cb ->
      Stdlib.List.iter (fun cr ->
        let (((r, g), b), _a) =
          if which = "spec" then Yuv.spec_px zc.(y) zc.(cb) zc.(cr) else Yuv.px zc.(y) zc.(cb) zc.(cr) in
        output_byte oc (i r); output_byte oc (i g); output_byte oc (i b))
        (parse_range crs)) (parse_range cbs)) (parse_range ys);
  close_out oc

let suite_yuv_img which path =
  Stdlib.List.iter
    (fun line ->
      match split_ws line with
      | [ idx; w; yh; cbh; crh ] ->
          let ys = zs_of_hex yh and cbs = zs_of_hex cbh and crs = zs_of_hex crh in
          let w = int_of_string w in
          if which = "spec" then begin
            let h = if w = 0 then 0 else Stdlib.List.length ys / w in
            Printf.printf "%s ok %s\n" idx (hex_of_zs (Yuv.rgba_spec_flat ys cbs crs (z w) (z h)))
          end else
          (match Yuv.yuv420_to_rgba ys cbs crs (z w) with
          | Prelude.Ok out -> Printf.printf "%s ok %s\n" idx (hex_of_zs out)
          | Prelude.Panic _ -> Printf.printf "%s panic\n" idx
          | _ -> Printf.printf "%s other\n" idx)
      | [] -> ()
      | _ -> failwith ("bad case line: " ^ line))
    (read_lines path)

(* ---------------- decoder histories ---------------- *)
let fnv (l : int list) : string =
  (* FNV-1a, 64 bit (OCaml ints are 63 bit: keep two 32-bit halves) *)
  let hi = ref 0xcbf29ce4 and lo = ref 0x84222325 in
  Stdlib.List.iter (fun b ->
    lo := !lo lxor (b land 255);
    (* multiply (hi:lo) by 0x100000001b3 = 2^40 + 0x1b3 *)
    let l0 = !lo and h0 = !hi in
    let p_lo = l0 * 0x1b3 in
    let new_lo = p_lo land 0xffffffff in
    let carry = p_lo lsr 32 in
    let new_hi = (h0 * 0x1b3 + carry + ((l0 lsl 8) land 0xffffffff)) land 0xffffffff in
    lo := new_lo; hi := new_hi) l;
  Printf.sprintf "%08x%08x" !hi !lo

let opt f = function None -> "-" | Some x -> f x
let zs x = string_of_int (i x)

let par_str = function
  | Header.Square -> "Sq" | Header.Par12_11 -> "12_11" | Header.Par10_11 -> "10_11"
  | Header.Par16_11 -> "16_11" | Header.Par40_33 -> "40_33"
  | Header.ParReserved r -> Printf.sprintf "R(%d)" (i r)
  | Header.ParExtended (w, h) -> Printf.sprintf "X(%d,%d)" (i w) (i h)

let fmt_str = function
  | Header.SubQcif -> "Sub" | Header.QuarterCif -> "Q" | Header.FullCif -> "F" | Header.FourCif -> "4"
  | Header.SixteenCif -> "16" | Header.SfReserved -> "Res"
  | Header.Extended (p, w, h) -> Printf.sprintf "Ext(%s,%d,%d)" (par_str p) (i w) (i h)

let type_str = function
  | Header.IFrame -> "I" | Header.PFrame -> "P" | Header.PbFrame -> "PB" | Header.ImprovedPbFrame -> "IPB"
  | Header.BFrame -> "B" | Header.EiFrame -> "EI" | Header.EpFrame -> "EP"
  | Header.PtReserved r -> Printf.sprintf "Res(%d)" (i r) | Header.DisposablePFrame -> "D"

let hdr_str (h : Header.picture) : string =
  Printf.sprintf "ver=%s tr=%d fmt=%s opts=%d plus=%d opp=%d type=%s mvr=%s sss=%s layer=%s rpsm=%s trp=%s q=%d mux=%s pbr=%s pbq=%s extra=%s"
    (opt zs h.Header.version) (i h.Header.temporal_reference) (opt fmt_str h.Header.format) (i h.Header.options)
    (if h.Header.has_plusptype then 1 else 0) (if h.Header.has_opptype then 1 else 0)
    (type_str h.Header.picture_type)
    (opt (function Header.MvExtended -> "E" | Header.MvUnlimited -> "U") h.Header.motion_vector_range)
    (opt zs h.Header.slice_submode)
    (opt (fun (e, r) -> Printf.sprintf "%d/%s" (i e) (opt zs r)) h.Header.scalability_layer)
    (opt zs h.Header.rps_mode) (opt zs h.Header.prediction_reference) (i h.Header.quantizer)
    (opt zs h.Header.multiplex_bitstream) (opt zs h.Header.pb_reference) (opt zs h.Header.pb_quantizer)
    (hex_of_zs h.Header.extra)

let err_name (e : Prelude.err_kind) : string =
  match e with
  | Prelude.EInternal -> "Internal" | Prelude.EMiddleOfBitstream -> "MiddleOfBitstream"
  | Prelude.EInvalidMacroblockHeader -> "InvalidMacroblockHeader"
  | Prelude.EInvalidMacroblockCodedBits -> "InvalidMacroblockCodedBits"
  | Prelude.EInvalidIntraDc -> "InvalidIntraDc" | Prelude.EInvalidShortCoefficient -> "InvalidShortCoefficient"
  | Prelude.EInvalidLongCoefficient -> "InvalidLongCoefficient" | Prelude.EInvalidMvd -> "InvalidMvd"
  | Prelude.EInvalidPType -> "InvalidPType" | Prelude.EInvalidPlusPType -> "InvalidPlusPType"
  | Prelude.EInvalidGobHeader -> "InvalidGobHeader" | Prelude.EInvalidBitstream -> "InvalidBitstream"
  | Prelude.EPictureFormatMissing -> "PictureFormatMissing" | Prelude.EPictureFormatInvalid -> "PictureFormatInvalid"
  | Prelude.EUncodedIFrameBlocks -> "UncodedIFrameBlocks" | Prelude.EEof -> "Eof"
  | Prelude.EUnimplemented -> "Unimplemented"

let plane_str full (p : Recon.plane) : string =
  let d = Stdlib.List.map i (Recon.plane_data p) in
  if full then hex_of_ints d else fnv d

let pic_str full (d : Recon.decoded_picture) : string =
  Printf.sprintf "[%s %dx%d/%d %s %s %s]" (hdr_str d.Recon.d_header) (i (Recon.d_width d)) (i (Recon.d_height d))
    (i d.Recon.d_chroma_w) (plane_str full d.Recon.d_luma) (plane_str full d.Recon.d_cb) (plane_str full d.Recon.d_cr)

let next_str (r : Reader.reader) : string =
  let rec go n l acc = if n = 0 then acc else match l with [] -> acc | b :: t -> go (n - 1) t (acc ^ (if b then "1" else "0")) in
  let s = go 64 r.Reader.rbits "" in if s = "" then "-" else s

let state_str full (st : Decoder.state) : string =
  Printf.sprintf "L%s R%s" (opt (pic_str full) (Decoder.get_last_picture st))
    (opt (fun d -> Printf.sprintf "[%d %s]" (i d.Recon.d_header.Header.temporal_reference) (plane_str full d.Recon.d_luma))
       (Decoder.get_reference_picture st))

let model_area_limit = 65536

let suite_decode full path =
  Stdlib.List.iter
    (fun line ->
      match split_ws line with
      | idx :: o :: ops ->
          let o = int_of_string o in
          let opts = { Header.sorenson = (o land 1 = 1); Header.scalability = (o land 2 = 2) } in
          let st = ref (Decoder.new_state opts) in
          let session = ref (Reader.reader_of_bytes []) in
          let buf = Buffer.create 256 in
          let dead = ref false in
          (* memory guard (the property's own exclusion): declared area of the picture about to be decoded *)
          let declared_area (r : Reader.reader) : int =
            let prev = match Decoder.get_last_picture !st with Some p -> Some p.Recon.d_header | None -> None in
            match Header.decode_picture opts prev r with
            | Prelude.Ok (Some h, _) ->
                let fmt = match h.Header.format with
                  | Some f -> Some f
                  | None -> (match Decoder.get_last_picture !st with Some p -> Some p.Recon.d_format | None -> None) in
                (match fmt with
                 | Some f -> (match Header.into_width_and_height f with Some (w, hh) -> i w * i hh | None -> 0)
                 | None -> 0)
            | _ -> 0 in
          let decode_with (r : Reader.reader) (store : Reader.reader -> unit) =
            let area = declared_area r in
            if area > 16777216 then Buffer.add_string buf "excluded"
            else if area > model_area_limit then (Buffer.add_string buf "skipped-big"; dead := true)
            else
            match Decoder.decode_next_picture !st r with
            | Prelude.Ok (st', r') -> st := st'; store r';
                Buffer.add_string buf (Printf.sprintf "ok %s next=%s" (state_str full !st) (next_str r'))
            | Prelude.Err e ->
                Buffer.add_string buf (Printf.sprintf "err:%s %s next=%s" (err_name e) (state_str full !st) (next_str r))
            | Prelude.Panic p -> Buffer.add_string buf ("panic:" ^ panic_name p); dead := true
            | Prelude.OutOfFuel -> Buffer.add_string buf "outoffuel"; dead := true in
          Stdlib.List.iter (fun op ->
            if not !dead then begin
              Buffer.add_string buf " | ";
              let arg = if String.length op > 2 then String.sub op 2 (String.length op - 2) else "" in
              match op.[0] with
              | 'D' -> decode_with (Reader.reader_of_bytes (zs_of_hex arg)) (fun _ -> ())
              | 'S' ->
                  session := { Reader.rbits = !session.Reader.rbits @ Reader.bits_of_bytes (zs_of_hex arg);
                               Reader.rpos = !session.Reader.rpos };
                  decode_with !session (fun r' -> session := r')
              | 'R' -> decode_with !session (fun r' -> session := r')
              | 'M' -> Buffer.add_string buf "mode"   (* how the source segments its bytes is invisible to the model *)
              | 'C' -> st := Decoder.cleanup_buffers !st;
                  Buffer.add_string buf (Printf.sprintf "cleanup %s" (state_str full !st))
              | 'X' ->
                  (match Decoder.get_last_picture !st with
                   | None -> Buffer.add_string buf "pipe:none"
                   | Some d ->
                       (match Pipeline.pipeline d with
                        | Prelude.Ok rgba ->
                            let l = Stdlib.List.map i rgba in
                            Buffer.add_string buf (Printf.sprintf "pipe:ok:%d:%d:%s" (Stdlib.List.length l)
                              (i (Recon.d_width d) * i (Recon.d_height d) * 4) (if full then hex_of_ints l else fnv l))
                        | _ -> Buffer.add_string buf "panic"; dead := true))
              | 'B' ->
                  (match Reader.read_bits (z 32) (z (int_of_string arg)) !session with
                   | Prelude.Ok (v, r') -> session := r'; Buffer.add_string buf (Printf.sprintf "bits=%d" (i v))
                   | Prelude.Err e -> Buffer.add_string buf ("bits:err:" ^ err_name e)
                   | _ -> Buffer.add_string buf "bits:panic")
              | _ -> failwith ("bad op " ^ op)
            end) ops;
          Printf.printf "%s%s\n" idx (Buffer.contents buf)
      | [] -> ()
      | _ -> failwith ("bad case line: " ^ line))
    (read_lines path)

let suite_header path =
  Stdlib.List.iter
    (fun line ->
      match split_ws line with
      | [ idx; o; prevhex; pfn; hex ] ->
          let o = int_of_string o in
          let opts = { Header.sorenson = (o land 1 = 1); Header.scalability = (o land 2 = 2) } in
          let prev =
            if prevhex = "-" then None
            else
              Stdlib.List.fold_left
                (fun (prev, k) ph ->
                  match Header.decode_picture opts prev (Reader.reader_of_bytes (zs_of_hex ph)) with
                  | Prelude.Ok (Some p, _) -> (Some (if k = 0 && pfn = "1" then { p with Header.format = None } else p), k + 1)
                  | _ -> failwith "prev header must parse")
                (None, 0) (String.split_on_char ',' prevhex)
              |> fst in
          let r = Reader.reader_of_bytes (zs_of_hex hex) in
          (match Header.decode_picture opts prev r with
           | Prelude.Ok (Some h, r') -> Printf.printf "%s ok %s next=%s\n" idx (hdr_str h) (next_str r')
           | Prelude.Ok (None, r') -> Printf.printf "%s gob next=%s\n" idx (next_str r')
           | Prelude.Err e -> Printf.printf "%s err:%s next=%s\n" idx (err_name e) (next_str r)
           | Prelude.Panic _ -> Printf.printf "%s panic\n" idx
           | Prelude.OutOfFuel -> Printf.printf "%s outoffuel\n" idx)
      | [] -> ()
      | _ -> failwith ("bad case line: " ^ line))
    (read_lines path)

(* ---------------- reader operation trees (C14) ---------------- *)
let ity_of = function
  | "u8" -> ReaderConcrete.U8 | "u16" -> ReaderConcrete.U16 | "u32" -> ReaderConcrete.U32
  | "i16" -> ReaderConcrete.I16 | "i32" -> ReaderConcrete.I32 | _ -> failwith "type"

let rec parse_ops (toks : string array) (pos : int ref) : ReaderConcrete.rop list =
  let out = ref [] in
  let fin = ref false in
  while not !fin && !pos < Array.length toks do
    let t = toks.(!pos) in
    if String.length t > 0 && t.[0] = ']' then fin := true
    else begin
      incr pos;
      let f = Array.of_list (String.split_on_char ':' t) in
      let n k = z (int_of_string f.(k)) in
      let op = match f.(0) with
        | "P" -> ReaderConcrete.OPeek (ity_of f.(1), n 2)
        | "R" -> ReaderConcrete.ORead (ity_of f.(1), n 2)
        | "PS" -> ReaderConcrete.OPeekS (ity_of f.(1), n 2)
        | "RS" -> ReaderConcrete.OReadS (ity_of f.(1), n 2)
        | "K" -> ReaderConcrete.OSkip (n 1)
        | "B" -> ReaderConcrete.OU8
        | "V" -> ReaderConcrete.OVlc (n 1)
        | "M" -> ReaderConcrete.OUmv
        | "SC" -> ReaderConcrete.OStartCode (f.(1) = "1")
        | "C" -> ReaderConcrete.OCommit
        | "G" -> ReaderConcrete.OGrow (zs_of_hex f.(1))
        | "T[" | "U[" | "L[" ->
            let body = parse_ops toks pos in
            let close = toks.(!pos) in
            incr pos;
            let v = match String.split_on_char ':' close with [ _; x ] -> int_of_string x | _ -> 0 in
            (match f.(0) with
             | "T[" -> ReaderConcrete.OTx (body, v = 1)
             | "U[" -> ReaderConcrete.OTxUnion (body, z v)
             | _ -> ReaderConcrete.OLookahead body)
        | _ -> failwith ("bad op token " ^ t) in
      out := op :: !out
    end
  done;
  Stdlib.List.rev !out

let tok_str (t : ReaderConcrete.tok) : string =
  match t with
  | ReaderConcrete.TVal v -> Printf.sprintf "v=%d" (i v)
  | ReaderConcrete.TUnit -> "u"
  | ReaderConcrete.TErr e -> "err:" ^ err_name e
  | ReaderConcrete.TPanic -> "panic"
  | ReaderConcrete.TNone -> "none"
  | ReaderConcrete.TSome k -> Printf.sprintf "some=%d" (i k)
  | ReaderConcrete.TClose (name, r) ->
      let nm = match i name with 0 -> "tx" | 1 -> "un" | _ -> "la" in
      (match r with
       | Prelude.Ok (Some _) -> if i name = 1 then "un:some" else nm ^ ":ok"
       | Prelude.Ok None -> "un:none"
       | Prelude.Err e -> nm ^ ":err:" ^ err_name e
       | _ -> "panic")

let reader_fuel = nat_of_int 20000

let suite_reader path =
  Stdlib.List.iter
    (fun line ->
      match split_ws line with
      | idx :: src :: ops ->
          let pos = ref 0 in
          let tree = parse_ops (Array.of_list ops) pos in
          let src = (match String.index_opt src '@' with Some k -> String.sub src 0 k | None -> src) in
          let r0 = ReaderConcrete.from_source (zs_of_hex src) in
          let ((r1, toks), res) = ReaderConcrete.run_ops reader_fuel false tree r0 in
          let ts = Stdlib.List.map tok_str toks in
          let crashed = (match res with Prelude.Panic _ | Prelude.OutOfFuel -> true | _ -> false) in
          let tail = if crashed then "panic" else "rest=" ^ next_str (ReaderConcrete.abs_reader r1) in
          Printf.printf "%s %s\n" idx (String.concat " " (ts @ [ tail ]))
      | [] -> ()
      | _ -> failwith ("bad case line: " ^ line))
    (read_lines path)

(* ---------------- kernel tables (C11, C12) ---------------- *)
let mk_pic plus extended w h : Recon.decoded_picture =
  let hdr = { Header.version = None; Header.temporal_reference = z 0; Header.format = None; Header.options = z 0;
              Header.has_plusptype = plus; Header.has_opptype = plus; Header.picture_type = Header.PFrame;
              Header.motion_vector_range = Some (if extended then Header.MvExtended else Header.MvUnlimited);
              Header.slice_submode = None; Header.scalability_layer = None; Header.rps_mode = None;
              Header.prediction_reference = None; Header.quantizer = z 1; Header.multiplex_bitstream = None;
              Header.pb_reference = None; Header.pb_quantizer = None; Header.extra = [] } in
  let fmt = Header.Extended (Header.Square, z w, z h) in
  match Recon.new_decoded hdr fmt with Some d -> d | None -> failwith "new_decoded"

let suite_kernel_tables () =
  for q = 1 to 31 do
    for l = -1023 to 1023 do
      if l <> 0 then Printf.printf "dq %d %d %d\n" q l (i (SpecRecon.spec_dequant (z q) (z l)))
    done
  done;
  Stdlib.List.iteri (fun k (x, y) -> Printf.printf "zz %d %d %d\n" k (i x) (i y)) SpecRecon.zigzag_walk;
  for c = 0 to 255 do
    match SpecRecon.spec_intradc (z c) with
    | None -> Printf.printf "dc %d none\n" c
    | Some v -> Printf.printf "dc %d %d\n" c (i v)
  done;
  for s = -32768 to 32767 do
    Printf.printf "avg %d %d\n" s (i (SpecRecon.chroma_spec (z s)));
    let (d, b) = SpecRecon.lerp_spec (z s) in
    Printf.printf "lerp %d %d %d\n" s (i d) (if b then 1 else 0)
  done;
  let sizes = [| (176, 144); (352, 288); (356, 292); (704, 576); (708, 580); (1412, 1152) |] in
  let emit mode pic running ps ds =
    Stdlib.List.iter (fun p -> Stdlib.List.iter (fun d ->
      Stdlib.List.iter (fun isx ->
        Printf.printf "hp %d %d %d %d %d\n" mode p d (if isx then 1 else 0)
          (i (Recon.halfpel_decode pic (z running) (z p) (z d) isx))) [ true; false ]) ds) ps in
  let range a b = Stdlib.List.init (b - a + 1) (fun k -> a + k) in
  emit 0 (mk_pic false false 176 144) 0 (range (-40) 40) (range (-40) 40);
  emit 1 (mk_pic false false 176 144) 8 (range (-70) 70) (range (-32) 31);
  let wide = [ -4095; -2000; -600; -257; -256; -129; -128; -65 ] @ range (-64) 64 @ [ 65; 127; 128; 255; 256; 600; 2000; 4095 ] in
  let preds = Stdlib.List.filter (fun p -> p mod 3 = 0 || abs p < 70 || abs (abs p - 128) < 3 || abs (abs p - 256) < 3 || abs (abs p - 512) < 3) (range (-600) 600) in
  Array.iteri (fun k (w, h) -> emit (2 + k) (mk_pic true true w h) 8 preds wide) sizes;
  emit 8 (mk_pic true false 176 144) 8 preds wide

(* candidate cases: <idx> <mbw> <index> <cur 8 ints> <n> <n*8 ints> *)
let suite_candidates path =
  Stdlib.List.iter
    (fun line ->
      match split_ws line with
      | idx :: rest ->
          let f = Array.of_list (Stdlib.List.map int_of_string rest) in
          let mv k = (z f.(k), z f.(k + 1)) in
          let mv4 b = (((mv b, mv (b + 2)), mv (b + 4)), mv (b + 6)) in
          let n = f.(10) in
          let pv = Stdlib.List.init n (fun k -> mv4 (11 + 8 * k)) in
          (match Recon.predict_candidate pv (mv4 2) (z f.(0)) (z f.(1)) with
           | Prelude.Ok (x, y) -> Printf.printf "%s %d %d\n" idx (i x) (i y)
           | _ -> Printf.printf "%s panic\n" idx)
      | [] -> ())
    (read_lines path)

(* ---------------- IDCT (C10) ---------------- *)
(* cases: <idx> <64 coefficients row-major [y][x]> -> the 64 values the model adds to the prediction *)
let suite_idct path =
  Stdlib.List.iter
    (fun line ->
      match split_ws line with
      | idx :: rest ->
          let f = Array.of_list (Stdlib.List.map int_of_string rest) in
          let m = Stdlib.List.init 8 (fun y -> Stdlib.List.init 8 (fun x -> z f.(8 * y + x))) in
          let vals = Recon.idct_all_values m in
          Printf.printf "%s %s\n" idx (String.concat " " (Stdlib.List.map (fun v -> string_of_int (i v)) vals))
      | [] -> ())
    (read_lines path)

let suite_strength_table () =
  Printf.printf "model %s\n"
    (String.concat "," (Stdlib.List.map (fun x -> string_of_int (i x)) Deblock.quant_to_strength));
  Printf.printf "spec %s\n"
    (String.concat "," (Stdlib.List.map (fun x -> string_of_int (i x)) Deblock.table_J2))

let () =
  match Array.to_list Sys.argv with
  | _ :: "deblock-img" :: p :: _ -> suite_deblock_img p
  | _ :: "deblock-spec" :: p :: _ -> suite_deblock_spec p
  | _ :: "deblock-tables" :: _ -> suite_deblock_tables ()
  | _ :: "deblock-kernel" :: p :: _ -> suite_deblock_kernel p
  | _ :: "strength-table" :: _ -> suite_strength_table ()
  | _ :: "yuv-table" :: which :: o :: a :: b :: c :: _ -> suite_yuv_table which o a b c
  | _ :: "yuv-img" :: which :: p :: _ -> suite_yuv_img which p
  | _ :: "decode" :: mode :: p :: _ -> suite_decode (mode = "full") p
  | _ :: "header" :: p :: _ -> suite_header p
  | _ :: "reader" :: p :: _ -> suite_reader p
  | _ :: "kernel-tables" :: _ -> suite_kernel_tables ()
  | _ :: "candidates" :: p :: _ -> suite_candidates p
  | _ :: "idct" :: p :: _ -> suite_idct p
  | _ -> prerr_endline "usage: driver <suite> [file]"; exit 2
