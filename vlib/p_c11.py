"""C11 — Dequantisation is exact and saturating over the whole quantizer x level domain."""
import json
from vlib import common, decsuite, picgen, refdec, h263spec as S
from vlib.common import hexs
from vlib.decsuite import D, parse_tok, planes_of

THEOREMS = ["C11_dequant_exact", "C11_dequant_explicit", "C11_placement_order", "C11_intradc", "C11_quantizer_update", "C11_dquant_codes"]
BRIDGES = ["BridgeTables", "BridgeKDequant", "BridgePBlock", "BridgePRle"]


def one_mb_picture(mode, q, mb):
    b = S.Bits()
    b.extend(picgen.header_bits(mode, "I", 3, 16, 16, q))
    b.extend(S.macroblock_bits("I", mb, mode))
    return b


def mbs_picture(mode, q, mbs):
    b = S.Bits()
    b.extend(picgen.header_bits(mode, "I", 3, 16 * len(mbs), 16, q))
    for mb in mbs:
        b.extend(S.macroblock_bits("I", mb, mode))
    return b


def gen_cases(ctx, thorough):
    """one-macroblock 16x16 intra pictures observed through the public API"""
    cases, descs = [], {}
    idx = 0
    rng = ctx.rng.fork("c11")
    # (1) every quantizer x every DQUANT, one AC coefficient so that the quantizer in force shows
    for q in range(1, 32):
        for dq in (-2, -1, 1, 2):
            for mode in ("v0", "std"):
                blocks = [(60, [("esc", 1, 2, 30)])] + [(100, [])] * 5
                mb = {"kind": "coded", "type": S.INTRAQ, "cbp": [1, 0, 0, 0, 0, 0], "dquant": dq, "blocks": blocks}
                cases.append((idx, 0 if mode == "std" else 1, [D(one_mb_picture(mode, q, mb).to_bytes())]))
                descs[idx] = {"mode": mode, "ptype": "I", "w": 16, "h": 16, "quant": q, "tr": 3, "mbs": [mb], "what": "dquant"}
                idx += 1
    # (1b) the quantizer in force is a running value: every PQUANT x DQUANT x DQUANT sequence (the second update starts from
    # the clipped result of the first), and three-step sequences around the rails
    seqs = [(q, (d1, d2)) for q in range(1, 32) for d1 in (-2, -1, 1, 2) for d2 in (-2, -1, 1, 2)]
    seqs += [(q, (d1, d2, d3)) for q in (1, 2, 3, 29, 30, 31) for d1 in (-2, 2) for d2 in (-2, -1, 1, 2) for d3 in (-2, 2)]
    for q, ds in seqs:
        for mode in (("v0", "std") if q in (1, 2, 3, 29, 30, 31) else ("v0",)):
            mbs = []
            for k, dq in enumerate(ds):
                blocks = [(60 + k, [("esc", 1, 2 + k, 30)])] + [(100, [])] * 5
                mbs.append({"kind": "coded", "type": S.INTRAQ, "cbp": [1, 0, 0, 0, 0, 0], "dquant": dq, "blocks": blocks})
            pre = [D(x) for x in picgen.history_prefix(rng, mode, 16 * len(mbs), 16)] if idx % 4 == 1 else []   # the quantizer in force starts from PQUANT whatever came before
            cases.append((idx, 0 if mode == "std" else 1, pre + [D(mbs_picture(mode, q, mbs).to_bytes())]))
            descs[idx] = {"mode": mode, "ptype": "I", "w": 16 * len(mbs), "h": 16, "quant": q, "tr": 3, "mbs": mbs, "what": "dquant-sequence"}
            idx += 1
    # (2) levels in every escape form at a few positions, all quantizers
    forms = [("v0", "esc", [1, 2, 63, 64, 127]), ("std", "esc", [1, 127]), ("v1", "esc7", [1, 31, 63]), ("v1", "esc11", [1, 64, 511, 512, 1022, 1023])]
    for mode, form, levels in forms:
        for q in (range(1, 32) if thorough else [1, 2, 8, 16, 17, 30, 31]):
            for lv in levels:
                for sign in (1, -1):
                    for run in ((0, 1, 5, 20, 62) if thorough else (0, 5, 62)):
                        blocks = [(60, [(form, 1, run, sign * lv)])] + [(100, [])] * 5
                        mb = {"kind": "coded", "type": S.INTRA, "cbp": [1, 0, 0, 0, 0, 0], "blocks": blocks}
                        cases.append((idx, 0 if mode == "std" else 1, [D(one_mb_picture(mode, q, mb).to_bytes())]))
                        descs[idx] = {"mode": mode, "ptype": "I", "w": 16, "h": 16, "quant": q, "tr": 3, "mbs": [mb], "what": "level"}
                        idx += 1
    # (2b) EVERY codable level of every escape form through the block parser (a level the parser refuses or misreads never
    # reaches the dequantisation kernel): +-1..127 in the 8-bit form (standard and Sorenson version 0), -63..63 in the 7-bit
    # and -1023..1023 in the 11-bit form of Sorenson version 1; the quantizer varies with the level
    allforms = [("v0", "esc", range(-127, 128)), ("std", "esc", range(-127, 128)), ("v1", "esc7", range(-63, 64)), ("v1", "esc11", range(-1023, 1024))]
    for mode, form, levels in allforms:
        for lv in levels:
            if lv == 0:
                continue
            q = 1 + (abs(lv) * 7 + (3 if lv < 0 else 0)) % 31
            run = (abs(lv) * 5) % 63
            blocks = [(60, [(form, 1, run, lv)])] + [(100, [])] * 5
            mb = {"kind": "coded", "type": S.INTRA, "cbp": [1, 0, 0, 0, 0, 0], "blocks": blocks}
            cases.append((idx, 0 if mode == "std" else 1, [D(one_mb_picture(mode, q, mb).to_bytes())]))
            descs[idx] = {"mode": mode, "ptype": "I", "w": 16, "h": 16, "quant": q, "tr": 3, "mbs": [mb], "what": "every-level"}
            idx += 1
    # (3) every INTRADC code as the DC of block 0 (0 and 128 must be rejected)
    for c in range(256):
        blocks = [(c, [])] + [(100, [])] * 5
        mb = {"kind": "coded", "type": S.INTRA, "cbp": [0] * 6, "blocks": blocks}
        cases.append((idx, 1, [D(one_mb_picture("v0", 7, mb).to_bytes())]))
        descs[idx] = {"mode": "v0", "ptype": "I", "w": 16, "h": 16, "quant": 7, "tr": 3, "mbs": [mb], "what": "intradc", "code": c}
        idx += 1
    return cases, descs


def run(ctx):
    thorough = ctx.tier == "thorough"
    broken = common.proof_step(ctx, THEOREMS, BRIDGES, allowed_axioms=common.REALS_AXIOMS)
    err = common.ensure_runners(ctx)
    if err:
        ctx.violation({"kind": "build", "names": "harness build failed", "log": err[-2000:]}, "harness does not build", found_input=False)
        return
    found = False
    # suite 1: the kernels themselves, exhaustively, through the hooks, against tables from the extracted spec
    tabs = ctx.path("kernel-tables.txt")
    open(tabs, "w").write("\n".join(common.model(["kernel-tables"])) + "\n")
    out = common.impl(["kernel-sweep", tabs])
    n = int(out[0].split()[1])
    for l in [x for x in out[2:] if x.startswith("mismatch") and ("kernel=dequant" in x or "kernel=intradc" in x)][:20]:
        ctx.violation({"kind": "kernel", "class_key": l.split()[1], "case": l, "spec": "spec_dequant / zig-zag walk / INTRADC table (extracted Coq spec)", "implementation": l.split("got=")[1]},
                      l[:200])
        found = True
    ctx.count("kernel-sweep (inverse_rle through the hook: all 31 quantizers x all levels -1023..1023 x zig-zag positions x inter/intra; IntraDc all 256 codes)",
              n, [("sweep", n)], sample={"q": 31, "level": 529, "spec": 2047}, exhaustive=True,
              note="positions: 0,1,2,63 for every (q,level) and all 64 for |level|<=2, |level|>=1022 and a seventh of the rest")
    # suite 2: through the public API, with the reference reconstruction as oracle
    cases, descs = gen_cases(ctx, thorough)
    io = decsuite.run_impl(ctx, "c11", cases, full=True)
    mo = decsuite.run_model(ctx, "c11", cases, full=True)
    nontriv = set()
    for (idx, o, ops) in cases:
        d = descs[idx]
        t = parse_tok(io[idx][-1])
        if d["what"] == "intradc" and d["code"] in (0, 128):
            if not t["cls"].startswith("err"):
                ctx.violation({"kind": "picture", "class_key": "intradc-reject", "options": o, "ops": ops, "spec": "INTRADC codes 0 and 128 are rejected",
                               "implementation": t["cls"]}, "INTRADC code %d accepted" % d["code"])
                found = True
            continue
        v = None
        if t["cls"] != "ok":
            v = {"problem": "valid picture rejected: %s" % t["cls"]}
        else:
            p = planes_of(t["last"])
            planes, unc = refdec.reconstruct(d, None)
            v = refdec.compare(planes, unc, (p["Y"], p["Cb"], p["Cr"]))
        if v is not None:
            ev = d["mbs"][0]["blocks"][0]
            ctx.violation({"kind": "picture", "class_key": d["what"], "options": o, "ops": ops, "quant": d["quant"], "dquant": [m.get("dquant") for m in d["mbs"]],
                           "block0": [ev[0], [list(e) for e in ev[1]]], "spec": "reference reconstruction", "implementation": v},
                          "%s case q=%d dquant=%s block0=%s: %s" % (d["what"], d["quant"], [m.get("dquant") for m in d["mbs"]], ev, v))
            found = True
        elif io.get(idx) != mo.get(idx):
            broken.append("correspondence picture: model differs from implementation on a %s case" % d["what"])
        else:
            nontriv.add(idx)
    ctx.count("one-macroblock pictures through decode_next_picture (31 x 4 quantizer updates x 2 modes; all 31 x 4 x 4 two-step and the three-step sequences around the rails; levels in every escape form, every codable level of each form once; 256 INTRADC codes)",
              len(cases), nontriv, sample={"q": 1, "dquant": -2, "block0": [60, [["esc", 1, 2, 30]]]}, exhaustive=True)
    ctx.cov["rule"] = "kernel sweep: exhaustive over the stated domain; pictures: one per listed combination; non-trivial = accepted and equal to the reference reconstruction and to the model"
    ctx.cov["exhaustive"] = True
    if len(broken) > 3:
        broken = broken[:3] + ["... %d more" % (len(broken) - 3)]
    if broken and not found:
        ctx.violation({"kind": "unproved", "names": broken, "note": "all kernels and pictures match the spec"}, "; ".join(broken)[:400], found_input=False)


def replay(ctx, path):
    r = json.load(open(path))
    common.ensure_runners(ctx)
    if r.get("kind") == "picture":
        io = decsuite.run_impl(ctx, "replay", [(0, r["options"], r["ops"])], full=True)
        print("implementation:", io[0][0][:400])
        return 1
    print(r.get("case") or r.get("names"))
    return 1
