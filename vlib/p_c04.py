"""C04 — The reference picture is always the last non-disposable decoded picture."""
import itertools, json
from vlib import common, decsuite, picgen, refdec
from vlib.common import hexs
from vlib.decsuite import D, parse_tok, cls_kind, planes_of

THEOREMS = ["C04_decode_refines", "C04_cleanup_refines", "C04_history_refines"]
BRIDGES = ["BridgePState"]
W = H = 16
Q = 5


def delta_of(level):
    c = refdec.dequant(Q, level)
    return refdec.rnd(c / 8.0)[0]


def build(ops_abs, mode="v0"):
    """ops_abs: list of ('I'|'P'|'D', tr) | ('G',) | ('C',).  Returns (ops, expected) where expected is the
    per-op abstract-machine view: (accepted?, last (tr, type, luma) | None, ref luma | None)."""
    ops = []
    exp = []
    last = None     # (tr, type, luma list)
    ref = None      # luma list
    for k, a in enumerate(ops_abs):
        if a[0] == "C":
            ops.append("C")
            exp.append(("cleanup", last, ref))
            continue
        if a[0] == "G":
            ops.append(D(bytes([0x12, 0x34, 0x56 + k, 0x78])))
            exp.append(("err", last, ref))
            continue
        t, tr = a
        if t == "X":
            # an I picture whose header parses and whose first macroblock carries the forbidden INTRADC 128:
            # rejected after the header has been accepted; nothing may change
            b = picgen.Bits()
            b.extend(picgen.header_bits(mode, "I", tr, W, H, Q))
            b.code("1").code("0011").put(128, 8).put(0, 32)
            ops.append(D(b.to_bytes()))
            exp.append(("err", last, ref))
            continue
        if t == "I":
            v = 21 + 12 * k
            b = picgen.flat_picture(mode, "I", W, H, tr, v, quant=Q)
            luma = [v] * (W * H)
            ops.append(D(b.to_bytes()))
            last = (tr, "I", luma)
            ref = luma
            exp.append(("ok", last, ref))
        else:
            level = 1 + k % 3
            b = picgen.flat_picture(mode, t, W, H, tr, None, quant=Q, residual=level)
            ops.append(D(b.to_bytes()))
            if ref is None:
                exp.append(("err", last, ref))          # prediction without a reference is rejected
                continue
            d = delta_of(level)
            luma = [max(0, min(255, ref[x + y * W] + (d if (x % 16 < 8 and y % 16 < 8) else 0))) for y in range(H) for x in range(W)]
            last = (tr, t, luma)
            if t == "P":
                ref = luma
            exp.append(("ok", last, ref))
    return ops, exp


def check_history(idx, abs_ops, exp, toks):
    """compare the implementation's tokens with the abstract two-register machine; returns a description or None"""
    for k, (e, t) in enumerate(zip(exp, toks)):
        want_cls, last, ref = e
        if cls_kind(t["cls"]) != want_cls:
            return k, "call %d (%s): expected %s, implementation %s" % (k, abs_ops[k], want_cls, t["cls"])
        if (t["last"] in (None, "-")) != (last is None):
            return k, "call %d (%s): most recent picture %s" % (k, abs_ops[k], "missing" if last else "unexpected")
        if last is not None:
            p = planes_of(t["last"])
            tr = int(decsuite.hdr_field(p["hdr"], "tr"))
            ty = decsuite.hdr_field(p["hdr"], "type")
            if (tr, ty) != (last[0], last[1]):
                return k, "call %d (%s): most recent picture is (tr=%d,type=%s), expected (tr=%d,type=%s)" % (k, abs_ops[k], tr, ty, last[0], last[1])
            if list(p["Y"]) != last[2]:
                i = next(i for i in range(len(last[2])) if i >= len(p["Y"]) or p["Y"][i] != last[2][i])
                return k, "call %d (%s): luma[%d] of the most recent picture is %s, expected %d (predicted from the wrong picture?)" % (
                    k, abs_ops[k], i, p["Y"][i] if i < len(p["Y"]) else None, last[2][i])
        if (t["ref"] in (None, "-")) != (ref is None):
            return k, "call %d (%s): reference picture %s" % (k, abs_ops[k], "missing" if ref else "unexpected")
        if ref is not None:
            m = t["ref"].strip("[]").split()
            got = bytes.fromhex(m[1])
            if list(got) != ref:
                return k, "call %d (%s): the reference picture is not the last non-disposable picture" % (k, abs_ops[k])
    return None


def gen_abs(ctx, maxlen, nrandom, maxrand):
    alpha = [(t, tr) for t in "IPD" for tr in (0, 1, 255)] + [("G",), ("C",), ("X", 1)]
    out = []
    for n in range(1, maxlen + 1):
        out += [list(x) for x in itertools.product(alpha, repeat=n)]
    rng = ctx.rng.fork("c04")
    alpha2 = [(t, tr) for t in "IPPDD" for tr in (0, 1, 2, 254, 255)] + [("G",), ("C",), ("X", 0), ("X", 255)]
    for _ in range(nrandom):
        n = rng.range(maxlen + 1, maxrand)
        h = [rng.choice(alpha2) for _ in range(n)]
        if rng.below(2):
            h[0] = ("I", rng.choice([0, 1, 255]))
        out.append(h)
    return out


def run(ctx):
    thorough = ctx.tier == "thorough"
    broken = common.proof_step(ctx, THEOREMS, BRIDGES, allowed_axioms=common.REALS_AXIOMS)
    err = common.ensure_runners(ctx)
    if err:
        ctx.violation({"kind": "build", "names": "harness build failed", "log": err[-2000:]}, "harness does not build", found_input=False)
        return
    found = False
    hs = gen_abs(ctx, 4 if thorough else 3, 20000 if thorough else 1500, 12)
    cases = []
    exps = {}
    for i, h in enumerate(hs):
        ops, exp = build(h, "v0" if i % 2 == 0 else "v1")
        cases.append((i, 1, ops))
        exps[i] = (h, exp)
    io = decsuite.run_impl(ctx, "c04", cases, full=True)
    mo = decsuite.run_model(ctx, "c04", cases, full=True)
    nontriv = set()
    nbad = 0
    for (idx, o, ops) in cases:
        h, exp = exps[idx]
        ti = [parse_tok(t) for t in io.get(idx, ["missing"])]
        r = check_history(idx, h, exp, ti) if len(ti) == len(exp) else (len(ti) - 1, "history stopped: %s" % ti[-1]["cls"])
        if r is not None:
            nbad += 1
            k, msg = r
            if nbad <= 200:
                ctx.violation({"kind": "ref-history", "class_key": msg.split(":")[1][:40] if ":" in msg else msg[:40],
                               "options": 1, "history": [list(a) for a in h[:k + 1]], "ops": ops[:k + 1],
                               "spec": "two registers (last, reference): I -> (p,p); P -> (p,p) predicted from reference; D -> (p, reference) predicted from reference; rejected/cleanup -> unchanged",
                               "implementation": msg}, "history %s: %s" % (h[:k + 1], msg))
            found = True
        elif io.get(idx) != mo.get(idx):
            broken.append("correspondence ref-history: model differs from implementation on history %s" % (h,))
        kinds = set(a[0] for a in h)
        if len(kinds & {"I", "P", "D"}) >= 2:
            nontriv.add(tuple(h))
    ctx.count("ref-history (implementation vs the abstract two-register machine; model = implementation)", len(cases), nontriv,
              sample={"history": [list(a) for a in hs[len(hs) // 2]]}, exhaustive=True,
              note="all histories of length <= %d over {I,P,D}x{tr 0,1,255} + {garbage, cleanup}; %d random histories up to 12 over tr {0,1,2,254,255}" %
              ((4, 20000) if thorough else (3, 1500)))
    ctx.cov["rule"] = ("16x16 Sorenson pictures: I pictures are flat with a colour unique to their position, P/D pictures add a position-dependent "
                       "DC residual to luma block 0, so the picture each one was predicted from shows in its pixels; after every call the most recent "
                       "picture (tr, type, luma) and the reference luma are compared with the abstract machine; non-trivial = at least two of {I,P,D} occur")
    if len(broken) > 3:
        broken = broken[:3] + ["... %d more" % (len(broken) - 3)]
    if broken and not found:
        ctx.violation({"kind": "unproved", "names": broken, "note": "no history of the enumeration violates the abstract machine"},
                      "; ".join(broken)[:400], found_input=False)


def replay(ctx, path):
    r = json.load(open(path))
    common.ensure_runners(ctx)
    if r.get("kind") == "ref-history":
        h = [tuple(a) for a in r["history"]]
        ops, exp = build(h, "v0")
        for mode in ("v0", "v1"):
            ops, exp = build(h, mode)
            io = decsuite.run_impl(ctx, "replay", [(0, 1, ops)], full=True)
            ti = [parse_tok(t) for t in io.get(0, ["missing"])]
            res = check_history(0, h, exp, ti) if len(ti) == len(exp) else (0, "stopped")
            if res is not None:
                print("implementation:", res[1])
                print("REPRODUCED")
                return 1
        print("NOT-REPRODUCED")
        return 0
    print("replay names broken obligations only:", r.get("names"))
    return 1
