"""Shared machinery of ./check: builds, audits, runners, evidence, violations."""
import fcntl, glob, hashlib, json, os, re, subprocess, sys, time

ROOT = os.path.dirname(os.path.dirname(os.path.abspath(__file__)))
COQ = os.path.join(ROOT, "coq")
OCAML = os.path.join(ROOT, "ocaml")
HARNESS = os.path.join(ROOT, "harness")
WORK = os.path.join(ROOT, "work")
REPO = os.environ.get("VERIF_REPO", "/repo")
DRIVER = os.path.join(OCAML, "driver.exe")

ENV = dict(os.environ)
ENV.update({"CARGO_NET_OFFLINE": "true", "CARGO_TARGET_DIR": os.path.join(HARNESS, "target")})

TRUSTED_BASE = [
    "Coq 8.16.1 kernel incl. vm_compute (no native_compute)",
    "tools/rs2v.py (tables, constants), tools/rs2v_kernels.py (integer kernels -> checked-integer monad of coq/base/Checked.v) and tools/rs2v_parser.py (parser functions -> Gallina over the abstract reader; pure decoder functions): translators run on every check, trusted for their reading of the Rust subset (operator precedence, integer typing and inference of read widths, value-preserving casts, `wide` lanes as wrapping arithmetic, little-endian byte view, usize = 64 bits, `while` as the fuelled while_loop combinator, `loop` as loop_fuel with break/continue/return as results of the body, `for .. zip .. enumerate` as for_zip_enum, with_transaction as rollback-free body, a parser call matched on as a Result with the reader unchanged in its Err arms, `for x in list` with early `return` as for_each_ret, the f32 8x8 coefficient block of inverse_rle as an integer matrix (every value stored is an i16, exactly representable), helper functions of a parser file translated on demand, fragments located by their sink with the locals they depend on pulled in where first needed, Vec::with_capacity(n).capacity() = n, the split of decode_next_picture into five consecutive statement ranges and their composition p_decode_next_picture); what they emit is proved equal to the hand model in coq/bridge/*.v; tools/gen_spec_tables.py (H.263 code tables from vlib/h263spec.py into coq/spec/SpecTables.v)",
    "hand-modelled and tied by execution only: parser/reader.rs primitives as used by the generated parsers (related to a bit list by C14's refinement theorem), read_vlc / read_umv tree walks, the PEI loop, decoder/state.rs glue, gather / idct loops, halfpel_decode",
    "axioms: none declared by this development; per theorem as listed under coverage.axioms (Print Assumptions): for everything that mentions the Flocq binary32 model the standard-library axioms ClassicalDedekindReals.sig_forall_dec, ClassicalDedekindReals.sig_not_dec, FunctionalExtensionality.functional_extensionality_dep, Classical_Prop.classic; for the interval-based basis-table lemma of C10 also the primitive float / Uint63 axioms of the standard library",
    "extraction: ExtrOcamlBasic only (Extract Inductive bool/option/unit/prod/list/sumbool/sumor), no Extract Constant; Z/positive/nat stay inductives",
    "ocaml/driver.ml + zutil.ml (case parsing/printing), harness/src/*.rs (case parsing, catch_unwind, printing), vlib/*.py (diff, generators)",
    "modelled not verified: Rust std collections/slices, Read::read_exact, `wide` lane semantics, bytemuck casts, bitflags, num-traits checked shifts, IEEE-754 behaviour of rustc/LLVM on x86-64",
    "my transcription of H.263 (01/2005) clauses/tables/annexes and of the Sorenson header (coq/spec, spec parts of coq/model)",
]


def log(*a):
    print("[check]", *a, file=sys.stderr, flush=True)


def run(cmd, cwd=ROOT, timeout=3600, env=None, stdin=None):
    """Run a command, return (rc, stdout+stderr text). Never raises on failure."""
    try:
        p = subprocess.run(cmd, cwd=cwd, env=env or ENV, stdout=subprocess.PIPE, stderr=subprocess.STDOUT,
                           timeout=timeout, shell=isinstance(cmd, str), input=stdin)
        return p.returncode, p.stdout.decode("utf-8", "replace")
    except subprocess.TimeoutExpired as e:
        return 124, (e.stdout or b"").decode("utf-8", "replace") + "\n[timeout]"


def run_out(cmd, cwd=ROOT, timeout=3600):
    """Run and return (rc, stdout text, stderr text)."""
    try:
        p = subprocess.run(cmd, cwd=cwd, env=ENV, stdout=subprocess.PIPE, stderr=subprocess.PIPE, timeout=timeout)
        return p.returncode, p.stdout.decode("utf-8", "replace"), p.stderr.decode("utf-8", "replace")
    except subprocess.TimeoutExpired as e:
        return 124, (e.stdout or b"").decode("utf-8", "replace"), "[timeout]"


class Lock:
    """Serialises build steps so that checks may be launched in parallel."""

    def __init__(self, name="build"):
        os.makedirs(WORK, exist_ok=True)
        self.path = os.path.join(WORK, "." + name + ".lock")

    def __enter__(self):
        self.f = open(self.path, "w")
        fcntl.flock(self.f, fcntl.LOCK_EX)
        return self

    def __exit__(self, *a):
        fcntl.flock(self.f, fcntl.LOCK_UN)
        self.f.close()


# ------------------------------------------------------------------ Coq side
def coq_sources():
    out = []
    for d in ["base", "gen", "spec", "model", "bridge", "proofs", "props"]:
        out += sorted(glob.glob(os.path.join(COQ, d, "*.v")))
    return [os.path.relpath(p, COQ) for p in out]


def write_coqproject():
    head = "-Q . H263V\n-arg -w -arg -notation-overridden,-deprecated-hint-without-locality,-deprecated-syntactic-definition,-deprecated-instance-without-locality\n"
    text = head + "\n".join(coq_sources()) + "\n"
    p = os.path.join(COQ, "_CoqProject")
    old = open(p).read() if os.path.exists(p) else None
    if old != text or not os.path.exists(os.path.join(COQ, "Makefile")):
        open(p, "w").write(text)
        rc, out = run(["coq_makefile", "-f", "_CoqProject", "-o", "Makefile"], cwd=COQ)
        if rc != 0:
            raise RuntimeError("coq_makefile failed: " + out)


def regen():
    """Tie 1: regenerate coq/gen from /repo's working tree. Returns item->status."""
    rc, out = run([sys.executable, os.path.join(ROOT, "tools", "rs2v.py")], timeout=300)
    # spec/SpecTables.v is generated from my transcription of the H.263 code tables (vlib/h263spec.py): keep it in step
    run([sys.executable, os.path.join(ROOT, "tools", "gen_spec_tables.py")], timeout=60)
    st = {}
    p = os.path.join(COQ, "gen", "STATUS.json")
    if os.path.exists(p):
        st = json.load(open(p))
    if rc != 0:
        st["rs2v"] = "translator crashed: " + out[-300:]
    return st


def coq_make(targets, timeout=3000):
    """Build the given .vo targets (and their dependencies). Returns (ok, failing_file, log)."""
    write_coqproject()
    rc, out = run(["make", "-j16"] + targets, cwd=COQ, timeout=timeout)
    failing = None
    if rc != 0:
        m = re.findall(r'File "\./([^"]+)", line (\d+)', out)
        if m:
            failing = "%s:%s" % m[-1]
        else:
            m = re.findall(r"\*\*\* \[[^:]*: ([^\]]+)\]", out)
            failing = m[-1] if m else "unknown"
    return rc == 0, failing, out


FORBIDDEN = re.compile(r"\b(Admitted|admit|Axiom|Parameter|Conjecture|Unset Guard|bypass_check|type-in-type|impredicative-set|Admit Obligations)\b")


def forbidden_scan():
    """No Admitted/admit/Axiom/Parameter/... anywhere in the development (comments excluded)."""
    bad = []
    for rel in coq_sources() + ["extract/Extract.v"]:
        p = os.path.join(COQ, rel)
        if not os.path.exists(p):
            continue
        src = open(p).read()
        src = re.sub(r"\(\*.*?\*\)", lambda m: " " * len(m.group(0)), src, flags=re.S)
        for i, line in enumerate(src.split("\n")):
            if FORBIDDEN.search(line):
                bad.append("%s:%d: %s" % (rel, i + 1, line.strip()))
    proj = open(os.path.join(COQ, "_CoqProject")).read()
    if "type-in-type" in proj or "impredicative-set" in proj:
        bad.append("_CoqProject passes a forbidden flag")
    return bad


# Reals / Flocq: every definition of the binary32 model (Flocq's Bplus, Bmult, Bdiv carry proofs over the
# standard library's axiomatised reals) pulls these four standard-library axioms into Print Assumptions
REALS_AXIOMS = ("ClassicalDedekindReals.sig_forall_dec", "ClassicalDedekindReals.sig_not_dec",
                "FunctionalExtensionality.functional_extensionality_dep", "Classical_Prop.classic")

# coqchk -o lists, for every library loaded, the constants it cannot unfold: the standard-library axioms above, the
# primitive integers / floats, and the fields of sealed modules (Rdefinitions.RbaseSymbolsImpl.*, mathcomp's *Def modules,
# ssrunder's Under_rel).  None belongs to this development; what a theorem USES is settled by Print Assumptions.
COQCHK_LIBRARY_PREFIXES = ("Coq.", "mathcomp.", "Flocq.", "Interval.", "Bignums.", "Coquelicot.")

# primitive machine integers / floats of the standard library (used by the `interval` tactic's computations)
PRIMITIVE_AXIOMS = ("FloatAxioms.*", "PrimFloat.*", "PrimInt63.*", "Uint63.*")

STD_AXIOMS = {
    # axioms declared by the standard library / installed libraries; allowed when named per theorem
    "ClassicalDedekindReals.sig_forall_dec", "ClassicalDedekindReals.sig_not_dec",
    "FunctionalExtensionality.functional_extensionality_dep", "Classical_Prop.classic",
    "ProofIrrelevance.proof_irrelevance", "Eqdep.Eq_rect_eq.eq_rect_eq", "JMeq.JMeq_eq",
}


def coq_audit(pid, theorems, allowed=()):
    """Print Assumptions under each property theorem; returns (axioms_by_theorem, problems)."""
    os.makedirs(os.path.join(COQ, "audit"), exist_ok=True)
    src = "From H263V Require Import props.%s.\n" % pid
    for t in theorems:
        src += 'Goal True. idtac "@@THM %s". Abort.\nPrint Assumptions %s.\n' % (t, t)
    path = os.path.join(COQ, "audit", "%s_audit.v" % pid)
    open(path, "w").write(src)
    rc, out = run(["coqc", "-Q", ".", "H263V", "audit/%s_audit.v" % pid], cwd=COQ, timeout=600)
    problems = []
    by = {}
    if rc != 0:
        problems.append("audit file failed to compile: " + out[-400:])
        return by, problems
    cur = None
    for line in out.split("\n"):
        m = re.match(r"@@THM (\S+)", line.strip())
        if m:
            cur = m.group(1)
            by[cur] = []
            continue
        if cur is None:
            continue
        if line.startswith("Axioms:") or line.startswith("Closed under") or not line.strip():
            continue
        m = re.match(r"^([A-Za-z_][\w.']*)", line)
        if m and not line.startswith(" "):
            by[cur].append(m.group(1))
    for t in theorems:
        if t not in by:
            problems.append("no Print Assumptions output for " + t)
            continue
        bad = [ax for ax in by[t] if not (ax in allowed or any(a.endswith("*") and ax.startswith(a[:-1]) for a in allowed))]
        if bad:
            problems.append("theorem %s depends on axioms not on its allow-list: %s" % (t, ", ".join(bad[:8]) + (" ..." if len(bad) > 8 else "")))
    return by, problems


# ------------------------------------------------------------ OCaml / Rust side
def newest_mtime(paths):
    return max([os.path.getmtime(p) for p in paths if os.path.exists(p)] + [0])


def build_driver(force=False):
    """Extract the model and build ocaml/driver.exe when any model .vo / driver source is newer."""
    srcs = glob.glob(os.path.join(COQ, "base", "*.vo")) + glob.glob(os.path.join(COQ, "model", "*.vo")) + \
        glob.glob(os.path.join(COQ, "spec", "*.vo")) + [os.path.join(COQ, "extract", "Extract.v")] + \
        glob.glob(os.path.join(OCAML, "*.ml"))
    if not force and os.path.exists(DRIVER) and os.path.getmtime(DRIVER) >= newest_mtime(srcs):
        return True, ""
    ex = os.path.join(OCAML, "extracted")
    os.makedirs(ex, exist_ok=True)
    for f in glob.glob(os.path.join(ex, "*.ml*")):
        os.remove(f)
    rc, out = run(["coqc", "-Q", COQ, "H263V", os.path.join(COQ, "extract", "Extract.v")], cwd=ex, timeout=1200)
    if rc != 0:
        return False, "extraction failed: " + out[-2000:]
    rc, out = run(["sh", os.path.join(OCAML, "build.sh")], cwd=OCAML, timeout=1200)
    if rc != 0:
        return False, "ocaml build failed: " + out[-2000:]
    return True, ""


def harness_bin(profile):
    return os.path.join(HARNESS, "target", profile, "h263-verif-harness")


def build_harness(profile="checked"):
    """Rebuild the harness (and the three crates) from /repo's current working tree, hooks on."""
    lock = os.path.join(REPO, "Cargo.lock")
    mine = os.path.join(HARNESS, "Cargo.lock")
    if not os.path.exists(mine) and os.path.exists(lock):
        import shutil
        shutil.copy(lock, mine)
    rc, out = run(["cargo", "build", "--offline", "--profile", profile], cwd=HARNESS, timeout=1800)
    return rc == 0, out


def model(args, timeout=3600):
    rc, out, err = run_out(["sh", "-c", "ulimit -s unlimited 2>/dev/null; exec \"$0\" \"$@\"", DRIVER] + args, timeout=timeout)
    if rc != 0:
        raise RuntimeError("model driver failed (%d): %s %s" % (rc, args, err[-500:]))
    return out.split("\n")[:-1] if out.endswith("\n") else out.split("\n")


def impl(args, profile="checked", timeout=3600):
    rc, out, err = run_out([harness_bin(profile)] + args, timeout=timeout)
    if rc != 0:
        raise RuntimeError("harness failed (%d): %s %s" % (rc, args, err[-500:]))
    return out.split("\n")[:-1] if out.endswith("\n") else out.split("\n")


# ------------------------------------------------------------------ PRNG
class Rng:
    """splitmix64; every random choice of a run derives from VERIF_SEED."""

    def __init__(self, seed):
        self.s = (seed * 0x9E3779B97F4A7C15 + 0x1234567) & 0xFFFFFFFFFFFFFFFF

    def next(self):
        self.s = (self.s + 0x9E3779B97F4A7C15) & 0xFFFFFFFFFFFFFFFF
        z = self.s
        z = ((z ^ (z >> 30)) * 0xBF58476D1CE4E5B9) & 0xFFFFFFFFFFFFFFFF
        z = ((z ^ (z >> 27)) * 0x94D049BB133111EB) & 0xFFFFFFFFFFFFFFFF
        return z ^ (z >> 31)

    def below(self, n):
        return self.next() % n

    def range(self, lo, hi):
        return lo + self.below(hi - lo + 1)

    def choice(self, xs):
        return xs[self.below(len(xs))]

    def sample(self, xs, k):
        xs = list(xs)
        out = []
        for _ in range(min(k, len(xs))):
            out.append(xs.pop(self.below(len(xs))))
        return out

    def chance(self, num, den):
        return self.below(den) < num

    def bytes(self, n):
        out = bytearray()
        while len(out) < n:
            out += self.next().to_bytes(8, "little")
        return bytes(out[:n])

    def fork(self, tag):
        h = int.from_bytes(hashlib.sha256(("%d/%s" % (self.s, tag)).encode()).digest()[:8], "little")
        return Rng(h)


def hexs(b):
    return b.hex() if len(b) else "-"


# ------------------------------------------------------------------ context
class Ctx:
    def __init__(self, pid, tier, seed):
        self.pid, self.tier, self.seed = pid, tier, seed
        self.t0 = time.time()
        self.rng = Rng(seed)
        self.cov = {"evaluations": 0, "distinct_nontrivial": 0, "rule": "", "samples": [], "exhaustive": False,
                    "obligations": 0, "discharged": 0, "checker_cmd": "", "trusted_base": list(TRUSTED_BASE),
                    "suites": {}, "tie": {}, "tests_not_proofs": []}
        self.assumptions = []
        self.violations = []      # (replay_path, summary, suffix)
        self.known = []
        self.work = os.path.join(WORK, pid)
        os.makedirs(self.work, exist_ok=True)
        self._distinct = set()
        self.nviol = 0
        self._vkinds = set()

    def path(self, name):
        return os.path.join(self.work, name)

    def count(self, suite, n, nontrivial_keys=(), sample=None, exhaustive=None, note=None):
        """Record n evaluations for a suite; nontrivial_keys = hashable ids of the distinct non-trivial cases."""
        s = self.cov["suites"].setdefault(suite, {"evaluations": 0, "distinct_nontrivial": 0})
        s["evaluations"] += n
        before = len(self._distinct)
        for k in nontrivial_keys:
            self._distinct.add((suite, k))
        s["distinct_nontrivial"] += len(self._distinct) - before
        if exhaustive is not None:
            s["exhaustive"] = exhaustive
        if note:
            s["note"] = note
        self.cov["evaluations"] += n
        self.cov["distinct_nontrivial"] = len(self._distinct)
        if sample is not None and len(self.cov["samples"]) < 12:
            self.cov["samples"].append({"suite": suite, "case": sample})

    # ---- violations
    def violation(self, replay, summary, found_input=True):
        os.makedirs(os.path.join(ROOT, "replays"), exist_ok=True)
        replay = dict(replay)
        replay["property"] = self.pid
        replay["summary"] = summary
        replay["failing_input_found"] = found_input
        blob = json.dumps(replay, sort_keys=True, indent=1)
        h = hashlib.sha256(blob.encode()).hexdigest()[:12]
        path = os.path.join(ROOT, "replays", "%s-%s.json" % (self.pid, h))
        open(path, "w").write(blob)
        kf = match_known(self.pid, replay)
        if kf is not None:
            self.known.append((kf, summary))
            return
        self.nviol += 1
        # one VIOLATION line per kind of failure (the first = smallest generated), the rest only counted
        key = (replay.get("kind"), replay.get("class_key"))
        if key in self._vkinds:
            return
        self._vkinds.add(key)
        self.violations.append((path, summary, "" if found_input else " no-failing-input-found"))

    def finish(self):
        wall = time.time() - self.t0
        ev = {"property_id": self.pid, "tier": self.tier, "seed": self.seed, "level": "proof",
              "coverage": self.cov, "assumptions": self.assumptions, "wall_s": round(wall, 2),
              "violations": self.nviol}
        self.cov["known_findings_reported"] = [k["id"] for k, _ in self.known]
        if not self.cov.get("discharged"):
            # nothing discharged (a broken obligation): report it under another key so that the file still
            # validates through the schema's generic keys (evaluations / distinct_nontrivial)
            self.cov["discharged_count"] = self.cov.pop("discharged", 0)
        os.makedirs(os.path.join(ROOT, "evidence"), exist_ok=True)
        with open(os.path.join(ROOT, "evidence", "%s.json" % self.pid), "w") as f:
            json.dump(ev, f, indent=1, sort_keys=True)
        seen = set()
        for k, summary in self.known:
            if k["id"] in seen:
                continue
            seen.add(k["id"])
            print("KNOWN-FINDING: property=%s %s" % (self.pid, k["what"]))
        for path, summary, suffix in self.violations[:10]:
            print("VIOLATION property=%s replay=%s%s" % (self.pid, path, suffix))
            log("  ", summary)
        sys.stdout.flush()
        return 1 if self.violations else 0


# ------------------------------------------------------------------ known findings
def load_known():
    p = os.path.join(ROOT, "known_findings.json")
    if not os.path.exists(p):
        return {"open": [], "fixed": []}
    return json.load(open(p))


def match_known(pid, replay):
    """An open finding suppresses a violation only if the replay satisfies the entry's class predicate."""
    from vlib import known_classes
    for k in load_known().get("open", []):
        if k.get("property") != pid:
            continue
        pred = getattr(known_classes, k.get("class", ""), None)
        if pred is not None and pred(replay):
            return k
    return None


# ------------------------------------------------------------------ proof step shared by all properties
def proof_step(ctx, theorems, bridges=(), extra_targets=(), allowed_axioms=(), coqchk_admit=()):
    """Regenerate, rebuild bridges + props/<pid>.vo, audit. Returns list of broken obligations (strings)."""
    broken = []
    with Lock():
        st = regen()
        ctx.cov["tie"]["regenerated"] = st
        targets = ["props/%s.vo" % ctx.pid] + ["bridge/%s.vo" % b for b in bridges] + list(extra_targets)
        ctx.cov["checker_cmd"] = "make -C coq -j16 " + " ".join(targets) + " ; coqc audit/%s_audit.v (Print Assumptions)" % ctx.pid
        ok, failing, out = coq_make(targets)
        if not ok:
            # find out which obligations still build individually
            for t in targets:
                ok1, f1, o1 = coq_make([t])
                if not ok1:
                    broken.append("coq target %s does not build (%s)" % (t, f1))
                    log(o1[-1500:])
        bad = forbidden_scan()
        for b in bad:
            broken.append("forbidden construct: " + b)
        if not broken:
            by, problems = coq_audit(ctx.pid, theorems, allowed_axioms)
            ctx.cov["axioms"] = by
            broken += problems
    if not broken and ctx.tier == "thorough":
        # thorough tier: re-check the compiled property file and everything it depends on with the independent checker
        # coqchk_admit: modules whose re-check by coqchk's (VM-less) reduction takes hours; coqc's kernel has checked them
        adm = []
        for m in coqchk_admit:
            adm += ["-admit", "H263V." + m]
        rc, out = run(["coqchk", "-o", "-silent", "-Q", ".", "H263V"] + adm + ["H263V.props.%s" % ctx.pid], cwd=COQ, timeout=3000)
        ctx.cov["checker_cmd"] += " ; coqchk -o -silent -Q . H263V %s H263V.props.%s" % (" ".join(adm), ctx.pid)
        text = out if isinstance(out, str) else out.decode()
        m = re.search(r"\* Axioms:(.*?)\n\s*\n\* Constants/Inductives relying on type-in-type", text, re.S)
        axs = []
        if m and "<none>" not in m.group(1):
            axs = [l.strip() for l in m.group(1).strip().split("\n") if l.strip()]
        ctx.cov["coqchk"] = {"exit": rc, "axioms": axs, "modules_not_rechecked": list(coqchk_admit)}
        # coqchk lists the axioms declared by every library the file loads (Flocq loads the classical reals), whether
        # or not a theorem of this property uses them; what each theorem uses is settled by Print Assumptions above.
        allow = list(allowed_axioms) + list(REALS_AXIOMS)
        def allowed(a):
            a = a.split(":")[0].strip()
            if a.startswith("H263V."):
                return False       # nothing of this development may be an axiom
            if a.startswith(COQCHK_LIBRARY_PREFIXES):
                return True        # sealed module fields and axioms of the libraries loaded: listed in the evidence
            return any((p.endswith("*") and a.startswith(p[:-1])) or a == p or a.split(".")[-1] == p.split(".")[-1] for p in allow)
        if rc != 0:
            broken.append("coqchk rejects props/%s.vo: %s" % (ctx.pid, text[-300:]))
        for a in axs:
            if not allowed(a):
                broken.append("coqchk: axiom outside the allow-list: " + a)
        for key in ("type-in-type", "unsafe (co)fixpoints", "positivity is assumed"):
            mm = re.search(re.escape(key) + r":(.*?)\n\s*\n", text + "\n\n", re.S)
            if mm and "<none>" not in mm.group(1):
                broken.append("coqchk: " + key + ": " + mm.group(1).strip()[:200])
    for k, v in st.items():
        if v != "ok":
            ctx.cov["tie"].setdefault("regen_problems", []).append("%s: %s" % (k, v))
    nb = len(bridges)
    ctx.cov["obligations"] = len(theorems) + nb
    ctx.cov["discharged"] = 0 if broken else len(theorems) + nb
    ctx.cov["theorems"] = list(theorems)
    ctx.cov["bridge_files"] = list(bridges)
    ctx.cov["broken_obligations"] = broken
    return broken


def ensure_runners(ctx, profiles=("checked",)):
    with Lock():
        ok, msg = build_driver()
        if not ok:
            raise RuntimeError(msg)
        for p in profiles:
            ok, out = build_harness(p)
            if not ok:
                return out
    return None


def diff_lines(a, b):
    """Index-keyed comparison of two outputs whose lines start with the case index."""
    da = {l.split(" ", 1)[0]: l for l in a if l.strip()}
    db = {l.split(" ", 1)[0]: l for l in b if l.strip()}
    bad = []
    for k in da:
        if db.get(k) != da[k]:
            bad.append((k, da[k], db.get(k)))
    for k in db:
        if k not in da:
            bad.append((k, None, db[k]))
    return bad
