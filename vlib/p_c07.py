"""C07 — YUV to RGB conversion is the BT.601 studio-range formula for every colour."""
import json, os, subprocess
from concurrent.futures import ThreadPoolExecutor
from vlib import common

THEOREMS = ["C07_px_formula", "C07_constants_nearest", "C07_within_one", "C07_alpha_and_range", "C07_monotone", "C07_no_wrap"]
BRIDGES = ["BridgeYuv", "BridgeKYuv"]


def blocks(thorough):
    if thorough:
        # all 2^24 triples, split over y for parallel table generation
        return [("%d:%d:1" % (y, y + 15), "0:255:1", "0:255:1") for y in range(0, 256, 16)]
    lat = "0:255:5"          # 52 points per axis incl. 0 and 255
    return [(lat, lat, lat),
            ("0:255:255", "0:255:1", "0:255:1"), ("0:255:1", "0:255:255", "0:255:1"), ("0:255:1", "0:255:1", "0:255:255"),
            ("14:18:1", "0:255:3", "0:255:3"), ("233:237:1", "0:255:3", "0:255:3"), ("0:255:3", "126:130:1", "126:130:1")]


def run(ctx):
    thorough = ctx.tier == "thorough"
    broken = common.proof_step(ctx, THEOREMS, BRIDGES)
    err = common.ensure_runners(ctx)
    if err:
        ctx.violation({"kind": "build", "names": "harness build failed", "log": err[-2000:]}, "harness does not build", found_input=False)
        return
    found = False
    bl = blocks(thorough)

    def one(i):
        b = bl[i]
        tm = ctx.path("px_model_%d.bin" % i)
        ts = ctx.path("px_spec_%d.bin" % i)
        common.model(["yuv-table", "model", tm, b[0], b[1], b[2]])
        common.model(["yuv-table", "spec", ts, b[0], b[1], b[2]])
        o_spec = common.impl(["yuv-px", ts, b[0], b[1], b[2]])
        same = open(tm, "rb").read() == open(ts, "rb").read()
        o_model = o_spec if same else common.impl(["yuv-px", tm, b[0], b[1], b[2]])
        os.remove(tm); os.remove(ts)
        return b, o_spec, o_model, same
    with ThreadPoolExecutor(max_workers=16) as ex:
        results = list(ex.map(one, range(len(bl))))
    total = 0
    for b, o_spec, o_model, same in results:
        n = int(o_spec[0].split()[1])
        total += n
        for l in [x for x in o_spec[2:] if x.startswith("mismatch")][:5]:
            f = dict(x.split("=", 1) for x in l.split()[1:4])
            got = l.split("got=")[1].split(" want=")[0]
            want = l.split("want=")[1]
            ctx.violation({"kind": "yuv-px", "y": int(f["y"]), "cb": int(f["cb"]), "cr": int(f["cr"]),
                           "spec_bt601_fixed_point": want, "implementation": got},
                          "(Y,Cb,Cr)=(%s,%s,%s) converts to %s, BT.601 16.16 formula gives %s" % (f["y"], f["cb"], f["cr"], got, want))
            found = True
        if not same:
            broken.append("model kernel px differs from spec_px on block %s (theorem C07_px_formula must have failed)" % (b,))
        if int(o_model[1].split()[1]) != 0 and int(o_spec[1].split()[1]) == 0:
            broken.append("correspondence yuv-px: model differs from implementation on block %s" % (b,))
    ctx.count("yuv-px (every triple of the block through yuv420_to_rgba, 4x1 and 2x1 pictures alternately)", total,
              [("triples", total)], sample={"y": 81, "cb": 90, "cr": 240, "rgba": [254, 0, 0, 255]}, exhaustive=thorough,
              note="all 2^24 triples" if thorough else
              "52^3 lattice incl. 0 and 255 on each axis, the six faces of the cube in full, dense slabs around Y=16, Y=235 and Cb=Cr=128")
    ctx.cov["rule"] = ("one evaluation per (Y,Cb,Cr) triple of the listed blocks; the expected value comes from the extracted spec formula spec_px "
                       "(and separately from the extracted model kernel); distinct triples only, all non-trivial")
    ctx.cov["distinct_nontrivial"] = total
    ctx.cov["exhaustive"] = thorough
    if broken and not found:
        ctx.violation({"kind": "unproved", "names": broken, "note": "searched the triples listed in coverage: no failing input"},
                      "; ".join(broken)[:300], found_input=False)


def replay(ctx, path):
    r = json.load(open(path))
    common.ensure_runners(ctx)
    if r.get("kind") == "yuv-px":
        rg = lambda v: "%d:%d:1" % (v, v)
        ts = ctx.path("replay.bin")
        common.model(["yuv-table", "spec", ts, rg(r["y"]), rg(r["cb"]), rg(r["cr"])])
        o = common.impl(["yuv-px", ts, rg(r["y"]), rg(r["cb"]), rg(r["cr"])])
        print("\n".join(o))
        bad = int(o[1].split()[1]) != 0
        print("REPRODUCED" if bad else "NOT-REPRODUCED")
        return 1 if bad else 0
    print("replay names broken obligations only:", r.get("names"))
    return 1
