"""C02 — Intra pictures reconstruct exactly as H.263 prescribes."""
import json
from vlib import common, decsuite, picgen, refdec, h263spec as S
from vlib.common import hexs
from vlib.decsuite import D, parse_tok, cls_kind, planes_of

THEOREMS = ["C02_intra_picture", "C02_picture_body_roundtrip", "C02_block_roundtrip", "C02_macroblock_roundtrip", "C02_dequant_exact", "C02_zigzag_is_antidiagonal_walk", "C02_intradc_levels", "C02_block_placement", "C02_code_tables", "C02_transform_placement", "C02_intra_picture_accurate"]
BRIDGES = ["BridgeTables", "BridgeKDequant", "BridgePMacroblock", "BridgePBlock", "BridgePLoop", "BridgePNextLoop", "BridgePNext", "BridgePReach", "BridgePRle"]


def sizes(thorough):
    out = []
    for w in list(range(1, 81)) if thorough else [1, 2, 7, 8, 9, 15, 16, 17, 23, 31, 32, 33, 40, 47, 48, 49, 63, 64, 65, 80]:
        for h in ([1, 2, 8, 15, 16, 17, 31, 32, 33, 48, 64, 80] if thorough else [1, 8, 15, 16, 17, 32, 33, 48]):
            out.append((w, h))
    return out


def gen_cases(ctx, n):
    rng = ctx.rng.fork("c02")
    sz = sizes(ctx.tier == "thorough")
    cases, descs = [], {}
    for i in range(n):
        mode = ["v0", "v1", "std"][i % 3]
        w, h = sz[i % len(sz)] if i < 2 * len(sz) else rng.choice(sz)
        if mode == "std":
            if rng.below(12) == 0:
                w, h = 128, 96                       # a baseline PTYPE header (sub-QCIF), sparse
            else:
                w, h = max(4, (w + 3) // 4 * 4), max(4, (h + 3) // 4 * 4)
        sparse = 1 if w * h > 5000 else rng.choice([2, 5, 8])
        b, d = picgen.gen_picture(rng, mode, "I", w, h, quant=1 + (i * 7) % 31, sparse=sparse,
                                  stuffing_p=rng.choice([0, 0, 10, 30]))
        pad = rng.below(2)
        ops = [D(b.to_bytes(pad_bit=0))]
        if i % 5 == 3:
            # an intra picture uses no reference: it decodes the same whatever the decoder holds - here a picture of
            # another (or, one time in four, the same) size, intra or predicted, decoded just before
            pw, ph = (w, h) if rng.below(4) == 0 else rng.choice([(16, 16), (32, 16), (w + 16, h), (w, h + 16)])
            if mode == "std":
                pw, ph = max(4, (pw + 3) // 4 * 4), max(4, (ph + 3) // 4 * 4)
            pb, _ = picgen.gen_picture(rng, mode, "I", pw, ph, quant=5, sparse=1)
            ops = [D(pb.to_bytes(pad_bit=0))] + ops
            d = dict(d, after_picture=(pw, ph))
        cases.append((i, 0 if mode == "std" else 1, ops))
        descs[i] = d
    return cases, descs


def oracle_check(ctx, idx, desc, tok, ref=None):
    """implementation planes vs the reference reconstruction; returns violation dict or None"""
    if tok["cls"] != "ok":
        return {"problem": "a valid picture was rejected: %s" % tok["cls"]}
    p = planes_of(tok["last"])
    if (p["w"], p["h"]) != (desc["w"], desc["h"]) or p["cw"] != (desc["w"] + 1) // 2:
        return {"problem": "decoded size %dx%d (chroma row %d), signalled %dx%d" % (p["w"], p["h"], p["cw"], desc["w"], desc["h"])}
    planes, unc = refdec.reconstruct(desc, ref)
    return refdec.compare(planes, unc, (p["Y"], p["Cb"], p["Cr"]))


def run(ctx):
    thorough = ctx.tier == "thorough"
    broken = common.proof_step(ctx, THEOREMS, BRIDGES, allowed_axioms=common.REALS_AXIOMS + common.PRIMITIVE_AXIOMS, coqchk_admit=("proofs.BasisTable",))
    err = common.ensure_runners(ctx)
    if err:
        ctx.violation({"kind": "build", "names": "harness build failed", "log": err[-2000:]}, "harness does not build", found_input=False)
        return
    found = False
    # the transcribed code tables against the trees in the source (both directions)
    tprob = table_crosscheck()
    for t in tprob:
        ctx.violation({"kind": "vlc-table", "class_key": t.split(":")[0], "spec": "H.263 Tables 7/8/13/14/16 (my transcription)", "implementation": t}, t)
        found = True
    cases, descs = gen_cases(ctx, 20000 if thorough else 600)
    io = decsuite.run_impl(ctx, "c02", cases, full=True)
    mo = decsuite.run_model(ctx, "c02", cases, full=True)
    nontriv = set()
    hist = {"modes": {}, "escape_events": 0, "short_events": 0, "stuffing": 0, "blocks_dc_only": 0, "blocks_coded": 0}
    n_oracle = 0
    for (idx, o, ops) in cases:
        d = descs[idx]
        hist["modes"][d["mode"]] = hist["modes"].get(d["mode"], 0) + 1
        for mb in d["mbs"]:
            if mb["kind"] == "stuffing":
                hist["stuffing"] += 1
            elif mb["kind"] == "coded":
                for dc, ev in mb["blocks"]:
                    hist["blocks_coded" if ev else "blocks_dc_only"] += 1
                    for e in ev:
                        hist["short_events" if e[0] == "short" else "escape_events"] += 1
        ti = parse_tok(io[idx][-1]) if io.get(idx) else {"cls": "missing", "raw": "missing"}
        same = io.get(idx) == mo.get(idx)
        # the reference reconstruction is slow in pure Python: run it on every mismatch and on a sample
        if not same or idx % (1 if thorough and idx < 3000 else 4) == 0 or cls_kind(ti["cls"]) != "ok":
            n_oracle += 1
            v = oracle_check(ctx, idx, d, ti)
            if v is not None:
                ctx.violation({"kind": "intra-picture", "class_key": v.get("problem", "sample")[:30], "options": o, "ops": ops,
                               "picture": {k: d.get(k) for k in ("mode", "w", "h", "quant", "tr", "after_picture")},
                               "spec": "H.263 intra reconstruction (dequantise, zig-zag, ideal IDCT, round, clip)", "implementation": v},
                              "intra picture %s %dx%d q=%d: %s" % (d["mode"], d["w"], d["h"], d["quant"], v))
                found = True
                continue
        if not same:
            broken.append("correspondence intra-picture: model and implementation differ on picture %d (%s %dx%d) though the implementation matches the reference reconstruction" % (idx, d["mode"], d["w"], d["h"]))
        nontriv.add(idx)
    ctx.cov["input_distribution"] = hist
    ctx.cov["oracle_checked"] = n_oracle
    ctx.count("intra-picture (planes byte for byte: model = implementation; implementation vs reference reconstruction on a sample and on every mismatch)",
              len(cases), nontriv, sample={"mode": descs[1]["mode"], "w": descs[1]["w"], "h": descs[1]["h"], "quant": descs[1]["quant"],
                                          "bytes": cases[1][2][0][:80] + "..."},
              note="sizes from the stated grid, Sorenson v0 / v1 / standard (PLUSPTYPE custom sizes and baseline sub-QCIF) in rotation")
    ctx.count("vlc-table cross-check (transcribed Tables 7, 8, 13, 14, 16 vs the trees regenerated from the source)", 1, [("tables", 5)])
    ctx.cov["rule"] = ("valid intra pictures from my encoder: every macroblock INTRA or INTRA+Q with DQUANT, INTRADC from all codes, "
                       "coefficient events in short and escape forms (8-bit; 7/11-bit for Sorenson v1), shapes one/row/column/dense, "
                       "stuffing macroblocks, PEI bytes; one picture in five is decoded after another picture (usually of another size) on the same decoder; non-trivial = picture accepted and byte-identical in model and implementation")
    ctx.cov["tests_not_proofs"].append("reference reconstruction (Python, double precision) vs implementation: search oracle, a test")
    if len(broken) > 3:
        broken = broken[:3] + ["... %d more" % (len(broken) - 3)]
    if broken and not found:
        ctx.violation({"kind": "unproved", "names": broken, "note": "no picture differs from the reference reconstruction"},
                      "; ".join(broken)[:400], found_input=False)


def table_crosscheck():
    """transcribed code tables vs the trees of the source, via the translator's parser"""
    import importlib.util, os
    spec = importlib.util.spec_from_file_location("rs2v", os.path.join(common.ROOT, "tools", "rs2v.py"))
    rs2v = importlib.util.module_from_spec(spec)
    spec.loader.exec_module(rs2v)
    mb = rs2v.read_src("h263/src/parser/macroblock.rs") or ""
    bl = rs2v.read_src("h263/src/parser/block.rs") or ""
    probs = []

    def tree(src, name):
        lit = rs2v.parse_const(src, name)
        out = []
        for e in lit[1]:
            if e[1] in ("Fork", "Entry::Fork"):
                out.append(("Fork", rs2v.num_int(e[2][0]), rs2v.num_int(e[2][1])))
            else:
                out.append(("End", e[2][0]))
        return S.leaves_of_tree(out)

    def valid(t, a, b):
        return ("call", "BlockPatternEntry::Valid", [("path", "MacroblockType::" + t), ("path", "true" if a else "false"), ("path", "true" if b else "false")])
    try:
        for name, table, stuff in (("MCBPC_I_TABLE", S.MCBPC_I, True), ("MCBPC_P_TABLE", S.MCBPC_P, True)):
            lv = tree(mb, name)
            want = {code: valid(*k) for k, code in table.items()}
            want[S.MCBPC_STUFFING] = ("path", "BlockPatternEntry::Stuffing")
            for code, leaf in want.items():
                if lv.get(code) != leaf:
                    probs.append("%s: code %s decodes to %r, Table says %r" % (name, code, lv.get(code), leaf))
            for code, leaf in lv.items():
                if code not in want and leaf != ("path", "BlockPatternEntry::Invalid"):
                    probs.append("%s: extra code %s -> %r" % (name, code, leaf))
        lv = tree(mb, "CBPY_TABLE_INTRA")
        for k, code in S.CBPY.items():
            leaf = ("call", "Some", [("array", [("path", "true" if b else "false") for b in k])])
            if lv.get(code) != leaf:
                probs.append("CBPY_TABLE_INTRA: code %s decodes to %r, Table 13 says %r" % (code, lv.get(code), k))
        for code, leaf in lv.items():
            if code not in S.CBPY.values() and leaf != ("path", "None"):
                probs.append("CBPY_TABLE_INTRA: extra code %s" % code)
        lv = tree(mb, "MVD_TABLE")
        for h in range(-32, 32):
            code = S.mvd_code(h)
            leaf = lv.get(code)
            ok = leaf is not None and leaf[0] == "call" and leaf[1] == "Some" and float(leaf[2][0][1]) * 2 == h
            if not ok:
                probs.append("MVD_TABLE: code %s decodes to %r, Table 14 says %s" % (code, leaf, h / 2))
        n_some = sum(1 for leaf in lv.values() if leaf != ("path", "None"))
        if n_some != 64:
            probs.append("MVD_TABLE: %d codes, Table 14 has 64" % n_some)
        lv = tree(bl, "TCOEF_TABLE")
        for (last, run, level), code in S.TCOEF.items():
            leaf = lv.get(code)
            ok = leaf is not None and leaf[0] == "call" and leaf[2][0][0] == "struct" and \
                dict(leaf[2][0][2]) == {"last": ("path", "true" if last else "false"), "run": ("num", str(run)), "level": ("num", str(level))}
            if not ok:
                probs.append("TCOEF_TABLE: code %s decodes to %r, Table 16 says (last=%d, run=%d, level=%d)" % (code, leaf, last, run, level))
        esc = lv.get(S.TCOEF_ESCAPE)
        if esc != ("call", "Some", [("path", "EscapeToLong")]):
            probs.append("TCOEF_TABLE: escape code decodes to %r" % (esc,))
        n_some = sum(1 for leaf in lv.values() if leaf != ("path", "None"))
        if n_some != 103:
            probs.append("TCOEF_TABLE: %d codes, Table 16 has 102 + escape" % n_some)
    except Exception as e:
        probs.append("tables: could not be read from the source (%r)" % (e,))
    return probs


def replay(ctx, path):
    r = json.load(open(path))
    common.ensure_runners(ctx)
    if r.get("kind") == "vlc-table":
        p = table_crosscheck()
        print("\n".join(p) or "tables agree")
        print("REPRODUCED" if p else "NOT-REPRODUCED")
        return 1 if p else 0
    if r.get("kind") == "intra-picture":
        io = decsuite.run_impl(ctx, "replay", [(0, r["options"], r["ops"])], full=True)
        print("implementation:", io[0][-1][:300])
        print("picture:", r["picture"], " (re-run ./check C02 with the same VERIF_SEED to re-evaluate the oracle)")
        return 1
    print("replay names broken obligations only:", r.get("names"))
    return 1
