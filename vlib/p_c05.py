"""C05 — A failed decode changes nothing and can be retried."""
import json
from vlib import common, decsuite, picgen, h263spec as S
from vlib.common import hexs
from vlib.decsuite import D, Sop, parse_tok, cls_kind

THEOREMS = ["C05_error_changes_nothing", "C05_failed_call_is_invisible", "C05_more_data_same_result"]
BRIDGES = ["BridgePState", "BridgePLoop", "BridgePNextLoop", "BridgePNext", "BridgePReach"]


def failing_inputs(rng, mode, w, h):
    """one failing input per error site: header, macroblock header, block data, prediction"""
    out = []
    good, _ = picgen.gen_picture(rng, mode, "P", w, h, uncoded_p=0, stuffing_p=0, sparse=8)
    gb = good.to_bytes()
    out.append(("no-start-code", bytes([0x55, 0xAA, 0x55, 0xAA, 0x12])))
    out.append(("truncated-header", gb[:3]))
    out.append(("truncated-block-data", gb[:max(6, len(gb) * 2 // 3)]))
    # failures at prediction depth, after the whole macroblock layer has been parsed: pictures of another size than the
    # decoder's reference - a complete predicted picture, and an INTRA picture whose data ends right after its header or
    # inside its first macroblock (the missing macroblocks count as predicted, which the other-size reference cannot serve)
    ow, oh = (w + 16, h) if w <= 48 else (w - 16, h)
    if mode == "std":
        ow, oh = max(4, (ow + 3) // 4 * 4), max(4, (oh + 3) // 4 * 4)
    other_p, _ = picgen.gen_picture(rng, mode, "P", ow, oh, stuffing_p=0, sparse=8)
    out.append(("other-size-predicted", other_p.to_bytes()))
    other_i, _ = picgen.gen_picture(rng, mode, "I", ow, oh, stuffing_p=0, sparse=8)
    hdr_bits = len(picgen.header_bits(mode, "I", 3, ow, oh, 5))
    ob = other_i.to_bytes()
    out.append(("other-size-intra-header-only", ob[:(hdr_bits + 7) // 8]))
    out.append(("other-size-intra-cut-in-first-macroblock", ob[:(hdr_bits + 7) // 8 + 1]))
    if mode != "std":
        # reserved size code / reserved picture type
        out.append(("reserved-format", S.sorenson_header(0, 1, (16, 16), "I", 0, 5, size_code=7).to_bytes() + rng.bytes(8)))
        hb = S.sorenson_header(0, 1, (w, h), "I", 0, 5)
        bad = S.Bits(); bad.extend(hb); bad.code("1").code("0011").put(128, 8)      # INTRADC 128 is forbidden
        out.append(("invalid-intradc", bad.to_bytes() + bytes(8)))
        bad = S.Bits(); bad.extend(hb); bad.code("1").code("00000")                  # invalid CBPY prefix
        out.append(("invalid-cbpy", bad.to_bytes() + bytes(4)))
        bad = S.Bits(); bad.extend(S.sorenson_header(0, 1, (w, h), "P", 0, 5)); bad.code("0").code("1").code("11").code("0000000000000").code("1")
        out.append(("invalid-mvd", bad.to_bytes() + bytes(4)))
        bad = S.Bits(); bad.extend(hb); bad.code("1").code("00010").put(9, 8).code("0000011").put(0, 1).put(0, 6).put(0, 8)
        out.append(("escape-level-zero", bad.to_bytes() + bytes(4)))
    else:
        bad = S.Bits().put(1, 17).put(0, 5).put(3, 8).put(0, 2).put(0, 6)
        out.append(("bad-ptype-marker", bad.to_bytes() + bytes(4)))
        out.append(("rprp-unimplemented", S.plus_header(3, 5, rpr=1).to_bytes() + bytes(4)))
    return out


def gen_cases(ctx, n):
    """each base history h is expanded to: h+[good] (twin) and, per failing input f, h+[f, f, good]"""
    rng = ctx.rng.fork("c05")
    groups = []
    idx = 0
    for i in range(n):
        mode = ["v0", "v1", "std"][i % 3]
        w, h = rng.choice([(16, 16), (32, 16), (17, 9), (48, 32)])
        if mode == "std":
            w, h = max(4, (w + 3) // 4 * 4), max(4, (h + 3) // 4 * 4)
        o = 0 if mode == "std" else 1
        hist = []
        k = i % 4
        if k >= 1:
            hist.append(D(picgen.gen_picture(rng, mode, "I", w, h, sparse=6)[0].to_bytes()))
        if k >= 2:
            hist.append(D(picgen.gen_picture(rng, mode, "P", w, h)[0].to_bytes()))
        if k >= 3 and mode != "std":
            hist.append(D(picgen.gen_picture(rng, mode, "D", w, h)[0].to_bytes()))
        good = D(picgen.gen_picture(rng, mode, "I" if k == 0 or rng.below(3) == 0 else "P", w, h)[0].to_bytes())
        fails = failing_inputs(rng, mode, w, h)
        if k == 0:
            # prediction without reference: a P picture on a fresh decoder
            fails.append(("prediction-without-reference", picgen.gen_picture(rng, mode, "P", w, h, uncoded_p=0, stuffing_p=0, allow=[S.INTER])[0].to_bytes()))
        twin = (idx, o, hist + [good]); idx += 1
        members = []
        for name, f in fails:
            members.append((name, (idx, o, hist + [D(f), D(f), good]))); idx += 1
        groups.append((len(hist), twin, members))
    return groups


def gen_stream_cases(ctx, n):
    """a valid picture delivered in two pieces through a growable source, at every byte split"""
    rng = ctx.rng.fork("c05-stream")
    out = []
    idx = 500000
    for i in range(n):
        mode = ["v0", "v1", "std"][i % 3]
        w, h = rng.choice([(16, 16), (32, 16), (17, 9)])
        if mode == "std":
            w, h = max(4, (w + 3) // 4 * 4), max(4, (h + 3) // 4 * 4)
        o = 0 if mode == "std" else 1
        b = picgen.gen_picture(rng, mode, "I", w, h, sparse=7, stuffing_p=5)[0].to_bytes()
        whole = (idx, o, [Sop(b), "B:16"]); idx += 1
        splits = []
        for k in range(1, len(b)):
            splits.append((k, (idx, o, [Sop(b[:k]), Sop(b[k:]), "B:16"]))); idx += 1
        out.append((whole, splits, len(b)))
    return out


def state_of(tok):
    return (tok["last"], tok["ref"])


def run(ctx):
    thorough = ctx.tier == "thorough"
    broken = common.proof_step(ctx, THEOREMS, BRIDGES, allowed_axioms=common.REALS_AXIOMS)
    err = common.ensure_runners(ctx)
    if err:
        ctx.violation({"kind": "build", "names": "harness build failed", "log": err[-2000:]}, "harness does not build", found_input=False)
        return
    found = False
    groups = gen_cases(ctx, 1500 if thorough else 120)
    streams = gen_stream_cases(ctx, 300 if thorough else 24)
    cases = []
    for hl, twin, members in groups:
        cases.append(twin)
        cases += [m for _, m in members]
    for whole, splits, n in streams:
        cases.append(whole)
        cases += [c for _, c in splits]
    io = decsuite.run_impl(ctx, "c05", cases)
    mo = decsuite.run_model(ctx, "c05", cases)
    for c in cases:
        if not decsuite.same_shape(mo.get(c[0]), io.get(c[0]), upto_crash=True):      # this property relates runs of the implementation; values are not the tie's business
            broken.append("correspondence failed-decode: model and implementation differ on history %d" % c[0])
    nontriv = set()
    kinds = {}
    for hl, twin, members in groups:
        tw = [parse_tok(t) for t in io[twin[0]]]
        for name, (idx, o, ops) in members:
            kinds[name] = kinds.get(name, 0) + 1
            t = [parse_tok(x) for x in io[idx]]
            before = state_of(tw[hl - 1]) if hl > 0 else ("-", "-")
            problem = None
            if len(t) != hl + 3:
                problem = "history stopped: %s" % t[-1]["cls"]
            else:
                f1, f2, g = t[hl], t[hl + 1], t[hl + 2]
                if cls_kind(f1["cls"]) != "err":
                    continue              # this input does not fail here (not an instance of the property)
                first_bits = f1["next"]
                if state_of(f1) != before:
                    problem = "the failed call changed the decoder's pictures"
                elif f2["raw"] != f1["raw"]:
                    problem = "repeating the failed call gave a different result: %s vs %s" % (f1["cls"], f2["cls"])
                elif g["raw"] != tw[hl]["raw"]:
                    problem = "valid data after the failed call decodes differently from a decoder that never saw the failing input"
                nontriv.add((name, hl))
            if problem:
                ctx.violation({"kind": "failed-decode", "class_key": name, "options": o, "ops": ops, "twin_ops": twin[2], "failing_input": name,
                               "spec": "an error leaves most recent picture, reference picture and reader position unchanged; later valid data decodes as if the failed call had not been made",
                               "implementation": problem}, "%s after %d pictures: %s" % (name, hl, problem))
                found = True
    # reader position after a failure: the same bits can be read again (checked on the session reader)
    for whole, splits, n in streams:
        tw = [parse_tok(t) for t in io[whole[0]]]
        for k, (idx, o, ops) in splits:
            t = [parse_tok(x) for x in io[idx]]
            if len(t) < 3:
                problem = "history stopped: %s" % t[-1]["cls"]
            elif cls_kind(t[0]["cls"]) != "err":
                continue                 # the first delivery already ended a picture (end of data inside a macroblock header): not a failed call
            elif t[1]["raw"] != tw[0]["raw"] or t[2]["raw"] != tw[1]["raw"]:
                problem = "after the rest of the data arrived the call did not behave as if all data had been present"
            else:
                nontriv.add(("split", idx))
                continue
            ctx.violation({"kind": "failed-decode", "class_key": "stream-split", "options": o, "ops": ops, "twin_ops": whole[2], "split_at_byte": k,
                           "spec": "a call that failed only for lack of data, repeated after more data was appended, behaves as if all data had been present",
                           "implementation": problem}, "split at byte %d of %d: %s" % (k, n, problem))
            found = True
    ctx.cov["failing_input_kinds"] = kinds
    ctx.count("failed-decode (state and position after failures; twin decoder; two-piece delivery at every byte split)", len(cases), nontriv,
              sample={"ops": [o[:50] for o in groups[1][2][0][1][2]]},
              note="%d base histories x failing inputs of every kind x {repeat, valid continuation}; %d pictures x every byte split" % (len(groups), len(streams)))
    ctx.cov["rule"] = ("the implementation is compared with itself across histories (with / without the failing call; one delivery / two deliveries) and with the model; "
                       "non-trivial = the failing input really failed at its intended site, distinct by (kind, history length) or split")
    if len(broken) > 3:
        broken = broken[:3] + ["... %d more" % (len(broken) - 3)]
    if broken and not found:
        ctx.violation({"kind": "unproved", "names": broken, "note": "no failing call changed state or position"},
                      "; ".join(broken)[:400], found_input=False)


def replay(ctx, path):
    r = json.load(open(path))
    common.ensure_runners(ctx)
    if r.get("kind") == "failed-decode":
        io = decsuite.run_impl(ctx, "replay", [(0, r["options"], r["ops"]), (1, r["options"], r["twin_ops"])])
        print("history:     ", " | ".join(t[:60] for t in io[0]))
        print("twin history:", " | ".join(t[:60] for t in io[1]))
        return 1
    print("replay names broken obligations only:", r.get("names"))
    return 1
