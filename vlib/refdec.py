"""Reference reconstruction straight from the H.263 text, on the *abstract* picture description
(the `desc` of picgen: header values + macroblock list), never on bits.  Used as the oracle of the
violation search for C02/C03/C04/C15.  Ideal IDCT in double precision; samples whose ideal value
lies within EPS of a rounding boundary are reported as 'uncertain' (either neighbour allowed)."""
import math
from vlib import h263spec as S
from vlib.picgen import zigzag_walk

EPS = 1e-3
ZZ = zigzag_walk()
COS = [[math.cos((2 * x + 1) * u * math.pi / 16) for u in range(8)] for x in range(8)]
CU = [1 / math.sqrt(2)] + [1.0] * 7
SIXTEENTH = [0, 0, 0, 1, 1, 1, 1, 1, 1, 1, 1, 1, 1, 1, 2, 2]   # Table 9 / 6.1.2: sixteenth-sample position -> half units


def dequant(q, level):
    v = q * (2 * abs(level) + 1) - (0 if q % 2 == 1 else 1)
    v = v if level > 0 else -v
    return max(-2048, min(2047, v))


def intradc_level(c):
    return 1024 if c == 255 else 8 * c


def block_coeffs(dc, events, q):
    F = [[0] * 8 for _ in range(8)]     # F[v][u]
    idx = 0
    if dc is not None:
        F[0][0] = intradc_level(dc)
        idx = 1
    for (_form, _last, run, level) in events:
        idx += run
        if idx >= 64:
            return None                   # not a valid block
        u, v = ZZ[idx]
        F[v][u] = dequant(q, level)
        idx += 1
    return F


def idct(F):
    """ideal values f[y][x]"""
    tmp = [[sum(CU[u] * F[v][u] * COS[x][u] for u in range(8)) for x in range(8)] for v in range(8)]
    return [[0.25 * sum(CU[v] * tmp[v][x] * COS[y][v] for v in range(8)) for x in range(8)] for y in range(8)]


def rnd(v, eps=EPS):
    """(rounded value, uncertain?) -- round to nearest; uncertain when within eps of a rounding boundary.
    eps scales with the block's coefficient mass: the implementation works in binary32."""
    r = math.floor(v + 0.5)
    frac = v - math.floor(v)
    return r, abs(frac - 0.5) < eps


def clip(lo, hi, v):
    return max(lo, min(hi, v))


def median3(a, b, c):
    return sorted([a, b, c])[1]


def wrap_mv(p, d):
    return ((p + d + 32) % 64) - 32


def chroma_mv(s):
    """sum of four luma components (half units) -> chroma component (half units), H.263 clause 6.1.2 / Table 9"""
    a = abs(s)
    v = 2 * (a // 16) + SIXTEENTH[a % 16]
    return v if s >= 0 else -v


def pred_sample(plane, w, h, x2, y2):
    """plane sample at half-sample position (x2/2, y2/2) with edge clamping; bilinear, rounding up"""
    xi, xf = x2 >> 1, x2 & 1
    yi, yf = y2 >> 1, y2 & 1

    def at(x, y):
        return plane[clip(0, h - 1, y) * w + clip(0, w - 1, x)]
    if not xf and not yf:
        return at(xi, yi)
    if xf and not yf:
        return (at(xi, yi) + at(xi + 1, yi) + 1) // 2
    if yf and not xf:
        return (at(xi, yi) + at(xi, yi + 1) + 1) // 2
    return (at(xi, yi) + at(xi + 1, yi) + at(xi, yi + 1) + at(xi + 1, yi + 1) + 2) // 4


def reconstruct(desc, ref):
    """desc: picgen description (valid picture).  ref: None or (Y, Cb, Cr, w, h) bytes-like planes.
    Returns ((Y, Cb, Cr), uncertain) with planes as lists and `uncertain` a set of (plane, index)."""
    w, h = desc["w"], desc["h"]
    cw, ch = (w + 1) // 2, (h + 1) // 2
    mbw, mbh = (w + 15) // 16, (h + 15) // 16
    Y = [0] * (w * h)
    Cb = [0] * (cw * ch)
    Cr = [0] * (cw * ch)
    unc = set()
    intra_pic = desc["ptype"] == "I"
    q = desc["quant"]
    mbs = [m for m in desc["mbs"] if m["kind"] != "stuffing"]
    vecs = []                      # per macroblock: 4 vectors (half units)

    def put_block(pl, name, pw, ph, bx, by, F, predicted):
        if F is None:
            return
        f = idct(F) if any(any(r) for r in F) else None
        eps = 1e-4 + 4e-6 * sum(abs(c) for r in F for c in r)
        for yy in range(8):
            for xx in range(8):
                x, y = bx + xx, by + yy
                if x >= pw or y >= ph:
                    continue
                if f is None:
                    continue
                r, u = rnd(f[yy][xx], eps)
                if predicted:
                    v = clip(0, 255, pl[y * pw + x] + clip(-256, 255, r))
                else:
                    v = clip(0, 255, clip(-256, 255, r))
                pl[y * pw + x] = v
                if u:
                    unc.add((name, y * pw + x))

    for n in range(mbw * mbh):
        col, line = n % mbw, n // mbw
        mb = mbs[n] if n < len(mbs) else {"kind": "uncoded"}      # early end of data: copies
        if mb["kind"] == "coded" and mb["type"] in (S.INTRA, S.INTRAQ):
            vecs.append([(0, 0)] * 4)
            if "dquant" in mb:
                q = clip(1, 31, q + mb["dquant"])
            q = clip(1, 31, q)
            for k in range(4):
                dc, ev = mb["blocks"][k]
                put_block(Y, "Y", w, h, col * 16 + 8 * (k % 2), line * 16 + 8 * (k // 2), block_coeffs(dc, ev, q), False)
            put_block(Cb, "Cb", cw, ch, col * 8, line * 8, block_coeffs(*mb["blocks"][4], q), False)
            put_block(Cr, "Cr", cw, ch, col * 8, line * 8, block_coeffs(*mb["blocks"][5], q), False)
            continue
        if intra_pic:
            raise ValueError("inter macroblock in intra picture")
        if ref is None:
            raise ValueError("prediction without reference")
        rY, rCb, rCr, rw, rh = ref
        assert (rw, rh) == (w, h)
        if mb["kind"] == "uncoded":
            mv4 = [(0, 0)] * 4
        else:
            if "dquant" in mb:
                q = clip(1, 31, q + mb["dquant"])
            q = clip(1, 31, q)
            diffs = [mb["mvd"]] + (mb.get("mvd234") or [])
            cur = [(0, 0)] * 4

            def cand(idx):
                left = vecs[n - 1] if col > 0 else None
                above = vecs[n - mbw] if line > 0 else None
                aright = vecs[n - mbw + 1] if (line > 0 and col < mbw - 1) else None
                if idx in (0, 2):
                    c1 = left[idx + 1] if left is not None else (0, 0)
                else:
                    c1 = cur[idx - 1]
                if idx in (0, 1):
                    c2 = above[idx + 2] if above is not None else c1
                    if col == mbw - 1:
                        c3 = (0, 0)
                    elif line == 0:
                        c3 = c1
                    else:
                        c3 = aright[2]
                else:
                    c2, c3 = cur[0], cur[1]
                return (median3(c1[0], c2[0], c3[0]), median3(c1[1], c2[1], c3[1]))
            if len(diffs) == 1:
                p = cand(0)
                v = (wrap_mv(p[0], diffs[0][0]), wrap_mv(p[1], diffs[0][1]))
                cur = [v] * 4
            else:
                for idx in range(4):
                    p = cand(idx)
                    cur[idx] = (wrap_mv(p[0], diffs[idx][0]), wrap_mv(p[1], diffs[idx][1]))
            mv4 = cur
        vecs.append(list(mv4))
        # prediction
        for k in range(4):
            bx, by = col * 16 + 8 * (k % 2), line * 16 + 8 * (k // 2)
            for yy in range(8):
                for xx in range(8):
                    x, y = bx + xx, by + yy
                    if x < w and y < h:
                        Y[y * w + x] = pred_sample(rY, w, h, 2 * x + mv4[k][0], 2 * y + mv4[k][1])
        sx = sum(v[0] for v in mv4)
        sy = sum(v[1] for v in mv4)
        cm = (chroma_mv(sx), chroma_mv(sy))
        for (pl, rp) in ((Cb, rCb), (Cr, rCr)):
            for yy in range(8):
                for xx in range(8):
                    x, y = col * 8 + xx, line * 8 + yy
                    if x < cw and y < ch:
                        pl[y * cw + x] = pred_sample(rp, cw, ch, 2 * x + cm[0], 2 * y + cm[1])
        if mb["kind"] == "coded":
            for k in range(4):
                dc, ev = mb["blocks"][k]
                put_block(Y, "Y", w, h, col * 16 + 8 * (k % 2), line * 16 + 8 * (k // 2), block_coeffs(dc, ev, q), True)
            put_block(Cb, "Cb", cw, ch, col * 8, line * 8, block_coeffs(*mb["blocks"][4], q), True)
            put_block(Cr, "Cr", cw, ch, col * 8, line * 8, block_coeffs(*mb["blocks"][5], q), True)
    return (Y, Cb, Cr), unc


def compare(planes, unc, got):
    """got: (Ybytes, Cbbytes, Crbytes). Returns None if equal up to +-1 at uncertain samples, else a description."""
    for name, want, g in zip(("Y", "Cb", "Cr"), planes, got):
        if len(want) != len(g):
            return {"plane": name, "problem": "length %d instead of %d" % (len(g), len(want))}
        for i, (a, b) in enumerate(zip(want, g)):
            if a != b and not ((name, i) in unc and abs(a - b) <= 1):
                return {"plane": name, "index": i, "spec": a, "implementation": b}
    return None
