"""Image-content generators shared by the deblock / yuv suites."""

def content(rng, w, h, kind):
    n = w * h
    if kind == "random":
        return rng.bytes(n)
    if kind == "falling":      # block rows/cols step down: negative d in every vector lane and scalar remainder
        base = rng.range(60, 200); step = rng.range(1, 30)
        return bytes(max(0, min(255, base - step * ((x // 8) + (y // 8)) + (rng.below(3) - 1))) for y in range(h) for x in range(w))
    if kind == "rising":
        base = rng.range(0, 120); step = rng.range(1, 30)
        return bytes(max(0, min(255, base + step * ((x // 8) + (y // 8)) + (rng.below(3) - 1))) for y in range(h) for x in range(w))
    if kind == "extreme":
        return bytes((255 if ((x // 8 + y // 8) % 2) else 0) ^ (rng.below(2)) for y in range(h) for x in range(w))
    if kind == "smallsteps":   # differences around the strength thresholds
        base = rng.range(20, 230)
        return bytes(max(0, min(255, base + rng.range(-14, 14))) for _ in range(n))
    if kind in ("rows", "cols"):   # constant along every edge: all lanes of a vector call see the same pattern
        n2 = (h if kind == "rows" else w)
        prof = []
        v = rng.range(0, 255)
        for i in range(n2):
            if i % 8 in (7, 0, 1) or rng.below(3) == 0:
                v = max(0, min(255, v + rng.choice([-40, -17, -8, -3, 0, 0, 3, 8, 17, 40])))
            prof.append(v)
        if kind == "rows":
            return bytes(prof[y] for y in range(h) for x in range(w))
        return bytes(prof[x] for y in range(h) for x in range(w))
    raise ValueError(kind)

KINDS = ["random", "falling", "rising", "extreme", "smallsteps", "rows", "cols"]
