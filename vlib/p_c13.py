"""C13 — Every decoded picture can be deblocked and converted to RGBA."""
import json
from vlib import common, decsuite, picgen, h263spec as S
from vlib.common import hexs
from vlib.decsuite import D, parse_tok, cls_kind, planes_of

THEOREMS = ["C13_new_picture_planes", "C13_pipeline_total"]
BRIDGES = ["BridgeDeblock", "BridgeKPicture"]


def gen_cases(ctx, wmax, hmax, quants):
    rng = ctx.rng.fork("c13")
    cases = []
    idx = 0
    for w in range(1, wmax + 1):
        for h in range(1, hmax + 1):
            q = quants[(w * 3 + h) % len(quants)]
            mode = "v0" if (w + h) % 2 else "v1"
            b, d = picgen.gen_picture(rng, mode, "I", w, h, quant=q, sparse=2, stuffing_p=0, extra=[])
            # keep the picture quantizer in force: no DQUANT
            pre = [D(x) for x in picgen.history_prefix(rng, mode, w, h)] if idx % 4 == 2 else []
            cases.append((idx, 1, pre + [D(b.to_bytes()), "X"], (w, h, q)))
            idx += 1
    # standard mode custom sizes (multiples of 4) and a predicted picture
    for w in range(4, wmax + 1, 4):
        for h in range(4, hmax + 1, 12):
            q = quants[(w + h) % len(quants)]
            bi, _ = picgen.gen_picture(rng, "std", "I", w, h, quant=q, sparse=2, extra=[])
            bp, _ = picgen.gen_picture(rng, "std", "P", w, h, quant=q, sparse=2, extra=[])
            cases.append((idx, 0, [D(bi.to_bytes()), D(bp.to_bytes()), "X"], (w, h, q)))
            idx += 1
    return cases


def big_picture(w, h):
    """a Sorenson intra picture of flat grey, every macroblock INTRA with no coefficients (53 bits each)"""
    b = S.Bits()
    b.extend(S.sorenson_header(0, 1, (w, h), "I", 0, 7))
    mb = S.Bits().code("1").code("0011")
    for _ in range(6):
        mb.put(64, 8)
    n = ((w + 15) // 16) * ((h + 15) // 16)
    b.b.extend(mb.b * n)
    return b.to_bytes()


# sizes whose sample counts are beyond what the model side is run on (crate only): around 2^16, and - area above 2^24,
# where a sample count computed in single precision is no longer exact - odd x odd and extreme aspect ratios; 8193x8193 has
# 4097*4097 = 2^24 + 8193 chroma samples per plane, an odd count above 2^24 (seeds C13-f, C13-g)
BIG_SIZES = [(255, 257), (1023, 65), (65, 1023), (4097, 4097), (8193, 8193), (65535, 257), (257, 65535), (8193, 2049), (65535, 1), (1, 65535)]


def shape_only(toks):
    """what C13 speaks about: result classes, headers, plane sizes and output lengths - not sample values (content hashes
    are dropped, so a change of the colour formula, of the filter kernel or of the transform is not this check's business)"""
    import re
    return [re.sub(r"\b[0-9a-f]{16}\b", "#", t) for t in (toks or [])]


def run(ctx):
    thorough = ctx.tier == "thorough"
    broken = common.proof_step(ctx, THEOREMS, BRIDGES, allowed_axioms=common.REALS_AXIOMS)
    err = common.ensure_runners(ctx)
    if err:
        ctx.violation({"kind": "build", "names": "harness build failed", "log": err[-2000:]}, "harness does not build", found_input=False)
        return
    found = False
    quants = list(range(1, 32)) if thorough else [1, 16, 31, 7, 24]
    full = gen_cases(ctx, 40, 40, quants)
    cases = [(i, o, ops) for (i, o, ops, _) in full]
    meta = {i: m for (i, _, _, m) in full}
    io = decsuite.run_impl(ctx, "c13", cases)
    mo = decsuite.run_model(ctx, "c13", cases)
    nontriv = set()
    for (idx, o, ops) in cases:
        w, h, q = meta[idx]
        toks = io.get(idx, ["missing"])
        last = toks[-1]
        problem = None
        if not last.startswith("pipe:ok:"):
            problem = "pipeline -> %s" % last[:40]
        else:
            f = last.split(":")
            if int(f[2]) != 4 * w * h:
                problem = "RGBA output has %s bytes, expected %d" % (f[2], 4 * w * h)
        if problem is None:
            t = parse_tok(toks[-2])
            m = __import__("re").search(r" (\d+)x(\d+)/(\d+) ", t["last"] or "")
            if not m or (int(m.group(1)), int(m.group(2)), int(m.group(3))) != (w, h, (w + 1) // 2):
                problem = "decoded picture reports %s" % (m.groups() if m else None,)
        if problem:
            ctx.violation({"kind": "pipeline", "class_key": problem[:20], "options": o, "ops": ops, "width": w, "height": h, "quant": q,
                           "spec": "deblocking each plane with the tabulated strength and converting to RGBA completes and yields width x height pixels",
                           "implementation": problem}, "%dx%d q=%d: %s" % (w, h, q, problem))
            found = True
        elif shape_only(io.get(idx)) != shape_only(mo.get(idx)):
            broken.append("correspondence pipeline: model and implementation differ at %dx%d q=%d" % (w, h, q))
        else:
            nontriv.add((w, h, q))
    ctx.count("pipeline (decode -> deblock x3 -> RGBA; sizes 1..40 x 1..40)", len(cases), nontriv,
              sample={"w": 17, "h": 9, "ops": ["D:<intra picture>", "X"]}, exhaustive=True,
              note="every width x height 1..40 (Sorenson custom sizes) with quantizers %s in rotation, plus standard-mode custom sizes with a predicted picture" % quants)
    # large pictures, implementation only: the size relations of theorem C13_new_picture_planes at sizes no model run reaches
    big = BIG_SIZES if thorough else BIG_SIZES[:5] + BIG_SIZES[-2:]
    bcases = [(900000 + k, 1, ["G" + D(big_picture(w, h))[1:], "X"]) for k, (w, h) in enumerate(big)]
    bio = decsuite.run_impl(ctx, "c13big", bcases)
    bn = set()
    for k, (w, h) in enumerate(big):
        toks = bio.get(900000 + k, ["missing"])
        last = toks[-1]
        problem = None
        if not last.startswith("pipe:ok:"):
            problem = "pipeline -> %s" % last[:60]
        elif int(last.split(":")[2]) != 4 * w * h:
            problem = "RGBA output has %s bytes, expected %d" % (last.split(":")[2], 4 * w * h)
        else:
            t = parse_tok(toks[-2])
            m = __import__("re").search(r" (\d+)x(\d+)/(\d+) ", t["last"] or "")
            if not m or (int(m.group(1)), int(m.group(2)), int(m.group(3))) != (w, h, (w + 1) // 2):
                problem = "decoded picture reports %s" % (m.groups() if m else None,)
        if problem:
            ctx.violation({"kind": "pipeline-big", "class_key": problem[:20], "options": 1, "width": w, "height": h, "quant": 7,
                           "spec": "luma w*h, chroma ceil(w/2)*ceil(h/2): deblocking and conversion complete with w*h pixels",
                           "implementation": problem, "how_to_replay": "./check C13 --replay <this file> rebuilds the flat-grey intra picture of that size"},
                          "%dx%d (large picture, implementation only): %s" % (w, h, problem))
            found = True
        else:
            bn.add((w, h))
    ctx.count("pipeline on large pictures (implementation only; flat intra pictures up to 65535 wide/high and above 2^24 samples)", len(big), bn,
              sample={"w": big[3][0], "h": big[3][1]}, note="sizes %s" % (big,))
    ctx.cov["rule"] = "one picture per size; non-trivial = pipeline completed with 4*w*h bytes, identical in model and implementation; distinct by (w,h,q)"
    ctx.cov["exhaustive"] = True
    if len(broken) > 3:
        broken = broken[:3] + ["... %d more" % (len(broken) - 3)]
    if broken and not found:
        ctx.violation({"kind": "unproved", "names": broken, "note": "pipeline completed for every size"},
                      "; ".join(broken)[:400], found_input=False)


def replay(ctx, path):
    r = json.load(open(path))
    common.ensure_runners(ctx)
    if r.get("kind") == "pipeline":
        io = decsuite.run_impl(ctx, "replay", [(0, r["options"], r["ops"])])
        print("implementation:", " | ".join(t[:80] for t in io[0]))
        bad = not io[0][-1].startswith("pipe:ok:%d:" % (4 * r["width"] * r["height"]))
        print("REPRODUCED" if bad else "NOT-REPRODUCED")
        return 1 if bad else 0
    if r.get("kind") == "pipeline-big":
        io = decsuite.run_impl(ctx, "replay", [(0, 1, ["G" + D(big_picture(r["width"], r["height"]))[1:], "X"])])
        print("implementation:", " | ".join(t[:80] for t in io[0]))
        bad = not io[0][-1].startswith("pipe:ok:%d:" % (4 * r["width"] * r["height"]))
        print("REPRODUCED" if bad else "NOT-REPRODUCED")
        return 1 if bad else 0
    print("replay names broken obligations only:", r.get("names"))
    return 1
