"""C09 — Deblocking equals the Annex J edge filter at every block edge, wherever it lies."""
import json
from vlib import common, imggen, p_c16
from vlib.common import hexs

THEOREMS = ["C09_image", "C09_kernel_scalar", "C09_kernel_lane", "C09_kernel_bytes", "C09_lane_floor_refuted", "C09_length"]
BRIDGES = ["BridgeDeblock", "BridgeKDeblock"]


def kernel_replay(ctx, line):
    # mismatch kernel=simd a=0 b=0 c=1 d=17 s=1 got=Some((0, 0, 1, 17)) want=(0, 0, 2, 17)
    f = dict(x.split("=", 1) for x in line.split()[1:6 + 1])
    got = line.split("got=")[1].split(" want=")[0]
    want = line.split("want=")[1]
    return {"kind": "deblock-kernel", "class_key": f["kernel"], "kernel": f["kernel"], "A": int(f["a"]), "B": int(f["b"]),
            "C": int(f["c"]), "D": int(f["d"]), "strength": int(f["s"]),
            "spec_annexJ": want, "implementation": got}


def run(ctx):
    thorough = ctx.tier == "thorough"
    broken = common.proof_step(ctx, THEOREMS, BRIDGES)
    err = common.ensure_runners(ctx)
    if err:
        ctx.violation({"kind": "build", "names": "harness build against /repo with hooks failed", "log": err[-2000:]},
                      "harness does not build", found_input=False)
        return
    found = False
    # --- suite 1: both kernels against the spec (Annex J) on all patterns / the lattice
    tabs = ctx.path("tables.txt")
    open(tabs, "w").write("\n".join(common.model(["deblock-tables"])) + "\n")
    out = common.impl(["deblock-sweep", tabs, "thorough" if thorough else "quick"], timeout=7200)
    n = int(out[0].split()[1])
    mism = [l for l in out[2:] if l.startswith("mismatch")]
    for l in mism[:40]:
        r = kernel_replay(ctx, l)
        ctx.violation(r, "%s kernel on (A,B,C,D)=(%d,%d,%d,%d) strength %d gives %s, Annex J gives %s" %
                      (r["kernel"], r["A"], r["B"], r["C"], r["D"], r["strength"], r["implementation"], r["spec_annexJ"]))
        found = True
    ctx.count("deblock-kernel sweep (scalar + vector kernel vs Annex J tables)", n,
              [("sweep", n)], sample={"A": 100, "B": 100, "C": 93, "D": 93, "strength": 4, "annexJ": "(99,98,95,94)"},
              exhaustive=thorough,
              note=("all 2^32 patterns x 12 strengths x 2 kernels (vector kernel with mixed and with uniform lanes)" if thorough else
                    "A,D on the 16-point lattice {0,17,..,255}, B,C all 256 values, 12 strengths, 2 kernels; "
                    "every pattern goes through the vector kernel twice: in a call whose 8 lanes carry 8 different patterns and in a lane-uniform call"))
    # direct three-way evaluation of a few hundred random patterns: spec = scalar model = lane model = both kernels
    rng = ctx.rng.fork("kernel-direct")
    kc = ctx.path("kernel.cases")
    pats = [(i, rng.below(256), rng.below(256), rng.below(256), rng.below(256), 1 + rng.below(12)) for i in range(400)]
    open(kc, "w").write("".join("%d %d %d %d %d %d\n" % p for p in pats))
    mo = common.model(["deblock-kernel", kc])
    io = common.impl(["deblock-kernel", kc])
    for p, lm, li in zip(pats, mo, io):
        fm = dict(x.split("=") for x in lm.split()[1:])
        fi = dict(x.split("=") for x in li.split()[1:])
        for k in ("scalar", "simd"):
            if fi[k] != fm["spec"]:
                ctx.violation({"kind": "deblock-kernel", "class_key": k, "kernel": k, "A": p[1], "B": p[2], "C": p[3], "D": p[4],
                               "strength": p[5], "spec_annexJ": fm["spec"], "implementation": fi[k]},
                              "%s kernel differs from Annex J on %s" % (k, p[1:]))
                found = True
        if fm["scalar"] != fi["scalar"] or fm["lane"] != fi["simd"]:
            broken.append("correspondence deblock-kernel (model kernel vs implementation kernel) at %s" % (p[1:],))
    ctx.count("deblock-kernel direct", len(pats), set(p[1:] for p in pats), sample={"case": pats[0][1:]})
    # --- suite 2: whole images, byte for byte, model vs implementation
    cases = p_c16.gen_cases(ctx, 80 if thorough else 40, 80 if thorough else 40, 3 if thorough else 2)
    p = ctx.path("img.cases")
    p_c16.write_cases(p, cases)
    mo = common.model(["deblock-img", p])
    io = common.impl(["deblock-img", p])
    by = {c[0]: c for c in cases}
    nontriv = set()
    nbad = 0
    for lm, li in zip(mo, io):
        i = int(lm.split()[0])
        _, w, h, s, d = by[i]
        if lm != li:
            nbad += 1
            if nbad <= 3:
                # the model of the passes is proved/tested equal to the pointwise Annex J image; ask the spec
                sp = ctx.path("spec1.cases")
                p_c16.write_cases(sp, [(0, w, h, s, d)])
                so = common.model(["deblock-spec", sp])[0]
                if so != "0 " + li.split(" ", 1)[1]:
                    ctx.violation({"kind": "deblock-img", "class_key": "bytes", "width": w, "height": h, "strength": s,
                                   "data_hex": hexs(d), "spec_annexJ_image": so.split(" ", 1)[1],
                                   "implementation": li.split(" ", 1)[1]},
                                  "deblock(%dx%d, strength %d) differs from the Annex J image" % (w, h, s))
                    found = True
                else:
                    broken.append("correspondence deblock-img: model differs from implementation at %dx%d s=%d but the implementation equals the spec" % (w, h, s))
        elif lm.split()[1] == "ok" and (h >= 10 or w >= 10) and lm.split()[2] != hexs(d):
            nontriv.add((w, h, s))
    ctx.count("deblock-img (bytes)", len(cases), nontriv,
              sample={"w": 19, "h": 17, "s": cases[0][3], "content": "seeded; kinds " + ",".join(imggen.KINDS)},
              exhaustive=True, note="all widths 1..%d x heights 0..%d, %d strengths per size" % ((80, 80, 3) if thorough else (40, 40, 2)))
    # pointwise spec vs model on a sample (test of the spec's executable form, not a proof)
    sample = [c for c in cases if c[1] * c[2] <= 900][:: max(1, len(cases) // (600 if thorough else 150))]
    sp = ctx.path("spec.cases")
    p_c16.write_cases(sp, sample)
    so = common.model(["deblock-spec", sp])
    sm = common.model(["deblock-img", sp])
    for a, b in zip(so, sm):
        if a != b:
            broken.append("executable pointwise spec differs from the pass model on case " + a.split()[0])
    ctx.count("deblock-spec vs model (test)", len(sample), [], note="pointwise Annex J image vs pass model")
    ctx.cov["tests_not_proofs"].append("deblock-spec vs model: the pointwise Annex J image is compared with the pass model by execution")
    ctx.cov["rule"] = ("kernel sweep: every (A,B,C,D,strength) of the stated lattice/full domain through process() and process_simd() "
                       "against tables computed by the extracted Annex J spec; images: one per (w,h,strength) with seeded content of five kinds "
                       "(random, falling edges, rising edges, extremes, small steps); non-trivial = image has a filterable edge and the filter changed it; distinct by (w,h,s).")
    ctx.cov["exhaustive"] = thorough
    if broken and not found:
        ctx.violation({"kind": "unproved", "names": broken,
                       "note": "kernel domain and the image grid were searched: no failing input"},
                      "; ".join(broken)[:300], found_input=False)


def replay(ctx, path):
    r = json.load(open(path))
    common.ensure_runners(ctx)
    if r.get("kind") == "deblock-kernel":
        kc = ctx.path("replay.cases")
        open(kc, "w").write("0 %d %d %d %d %d\n" % (r["A"], r["B"], r["C"], r["D"], r["strength"]))
        lm = common.model(["deblock-kernel", kc])[0]
        li = common.impl(["deblock-kernel", kc])[0]
        print("spec/model:", lm)
        print("implementation:", li)
        fm = dict(x.split("=") for x in lm.split()[1:])
        fi = dict(x.split("=") for x in li.split()[1:])
        bad = fi["scalar"] != fm["spec"] or fi["simd"] != fm["spec"]
        print("REPRODUCED" if bad else "NOT-REPRODUCED")
        return 1 if bad else 0
    if r.get("kind") == "deblock-img":
        p = ctx.path("replay.cases")
        d = bytes.fromhex(r["data_hex"]) if r["data_hex"] != "-" else b""
        p_c16.write_cases(p, [(0, r["width"], r["height"], r["strength"], d)])
        so = common.model(["deblock-spec", p])[0]
        li = common.impl(["deblock-img", p])[0]
        print("spec:", so[:200])
        print("implementation:", li[:200])
        bad = so != li
        print("REPRODUCED" if bad else "NOT-REPRODUCED")
        return 1 if bad else 0
    print("replay names broken obligations only:", r.get("names"))
    return 1
