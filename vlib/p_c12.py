"""C12 — Motion vectors are reconstructed exactly for every predictor/differential pair."""
import json
from vlib import common

THEOREMS = ["C12_vector_wrap", "C12_chroma_rounding", "C12_halfsample_split", "C12_candidates", "C12_mvd_code_table"]
BRIDGES = ["BridgeTables", "BridgeKMv", "BridgePMvPred"]


def median3(a, b, c):
    return sorted([a, b, c])[1]


def spec_candidate(mbw, index, cur, pv):
    """clause 6.1.1 written directly: neighbours by position"""
    n = len(pv)
    col, line = n % mbw, n // mbw
    left = pv[n - 1] if col > 0 else None
    above = pv[n - mbw] if line > 0 else None
    aright = pv[n - mbw + 1] if (line > 0 and col < mbw - 1) else None
    if index in (0, 2):
        c1 = left[index + 1] if left is not None else (0, 0)
    else:
        c1 = cur[index - 1]
    if index in (0, 1):
        c2 = above[index + 2] if above is not None else c1
        if col == mbw - 1:
            c3 = (0, 0)
        elif line == 0:
            c3 = c1
        else:
            c3 = aright[2]
    else:
        c2, c3 = cur[0], cur[1]
    return (median3(c1[0], c2[0], c3[0]), median3(c1[1], c2[1], c3[1]))


def gen_cases(ctx, n):
    rng = ctx.rng.fork("c12")
    cases = []
    # every availability class: mbw in {1,2,3,5}, every position of the first three lines, every block index
    for mbw in (1, 2, 3, 5):
        for nprev in range(0, 3 * mbw):
            for index in range(4):
                for rep in range(3):
                    cases.append((mbw, index, nprev))
    for _ in range(n):
        mbw = rng.range(1, 8)
        cases.append((mbw, rng.below(4), rng.below(4 * mbw)))
    out = []
    for (mbw, index, nprev) in cases:
        def v():
            r = rng.below(6)
            if r == 0:
                return (0, 0)           # intra / not-coded neighbour
            return (rng.range(-32, 31), rng.range(-32, 31))
        cur = [v() for _ in range(4)]
        pv = [[v() for _ in range(4)] if rng.below(5) else [(0, 0)] * 4 for _ in range(nprev)]
        out.append((mbw, index, cur, pv))
    return out


def run(ctx):
    thorough = ctx.tier == "thorough"
    broken = common.proof_step(ctx, THEOREMS, BRIDGES, allowed_axioms=common.REALS_AXIOMS)
    err = common.ensure_runners(ctx)
    if err:
        ctx.violation({"kind": "build", "names": "harness build failed", "log": err[-2000:]}, "harness does not build", found_input=False)
        return
    found = False
    tabs = ctx.path("kernel-tables.txt")
    open(tabs, "w").write("\n".join(common.model(["kernel-tables"])) + "\n")
    out = common.impl(["kernel-sweep", tabs])
    n = int(out[0].split()[1])
    for l in [x for x in out[2:] if x.startswith("mismatch") and any(k in x for k in ("kernel=mv_decode", "kernel=average_sum", "kernel=into_lerp"))][:20]:
        ctx.violation({"kind": "kernel", "class_key": l.split()[1] + ("" if "mode=" not in l else l.split("mode=")[1].split()[0]), "case": l,
                       "spec": "wrap_spec / chroma_spec / lerp_spec (extracted Coq spec; model for the UMV modes)", "implementation": l.split("got=")[1]}, l[:200])
        found = True
    ctx.count("kernel-sweep (mv_decode through the hook: every predictor x differential pair of nine option/size modes, both components; "
              "average_sum_of_mvs and into_lerp_parameters on every i16)", n, [("sweep", n)],
              sample={"mode": 0, "predictor": 31, "differential": 1, "want": -32}, exhaustive=True,
              note="mode 0 (no UMV): predictors and differentials -40..40; mode 1 (UMV without PLUSPTYPE): predictors -70..70; modes 2-8 (UMV + PLUSPTYPE, extended range at six picture sizes, unlimited): predictors -600..600 (dense near range boundaries), differentials up to +-4095")
    cs = gen_cases(ctx, 50000 if thorough else 4000)
    p = ctx.path("cand.cases")
    with open(p, "w") as f:
        for i, (mbw, index, cur, pv) in enumerate(cs):
            flat = [mbw, index] + [c for v in cur for c in v] + [len(pv)] + [c for m in pv for v in m for c in v]
            f.write("%d %s\n" % (i, " ".join(str(x) for x in flat)))
    io = common.impl(["candidates", p])
    mo = common.model(["candidates", p])
    nontriv = set()
    for i, (mbw, index, cur, pv) in enumerate(cs):
        want = spec_candidate(mbw, index, cur, pv)
        li = io[i].split()[1:]
        if li != [str(want[0]), str(want[1])]:
            ctx.violation({"kind": "candidates", "class_key": "cand", "mbw": mbw, "index": index, "current": cur, "previous": pv,
                           "spec": list(want), "implementation": li},
                          "predictor for block %d of macroblock %d (width %d): %s, clause 6.1.1 gives %s" % (index, len(pv), mbw, li, want))
            found = True
        elif io[i] != mo[i]:
            broken.append("correspondence candidates: model differs from implementation")
        else:
            n_ = len(pv)
            nontriv.add((mbw, index, min(n_ // mbw, 2), 0 if n_ % mbw == 0 else (2 if n_ % mbw == mbw - 1 else 1)))
    ctx.count("candidates (predict_candidate through the hook vs clause 6.1.1 written by position; model = implementation)", len(cs), nontriv,
              sample={"mbw": cs[5][0], "index": cs[5][1], "n_previous": len(cs[5][3])}, exhaustive=True,
              note="every (width in {1,2,3,5}) x (position in the first three lines) x (block index), three vector assignments each, plus random configurations; zero vectors stand for intra / not-coded neighbours")
    ctx.cov["rule"] = "non-trivial candidate case = distinct (width, block index, line class, column class)"
    ctx.cov["exhaustive"] = True
    if len(broken) > 3:
        broken = broken[:3] + ["... %d more" % (len(broken) - 3)]
    if broken and not found:
        ctx.violation({"kind": "unproved", "names": broken, "note": "all kernels match the spec"}, "; ".join(broken)[:400], found_input=False)


def replay(ctx, path):
    r = json.load(open(path))
    print(r.get("case") or r.get("implementation") or r.get("names"))
    return 1
