"""C06 — Picture headers are parsed field-for-field as H.263 and Sorenson define them."""
import json
from vlib import common, h263spec as S
from vlib.common import hexs

THEOREMS = ["C06_sorenson_roundtrip", "C06_baseline_roundtrip", "C06_plus_roundtrip", "C06_plus_inherits", "C06_markers_rejected", "C06_tr_range", "C06_fields_fit", "C06_modes_persist"]
BRIDGES = ["BridgeTables", "BridgePHeader", "BridgePPrologue"]
TRAILER = bytes([0xA5, 0x5A, 0xC3, 0x3C, 0x96, 0x69, 0x0F, 0xF0, 0x55])

SOR_FMT = {2: "F", 3: "Q", 4: "Sub", 5: "Ext(Sq,320,240)", 6: "Ext(Sq,160,120)", 7: "Res"}
PAR_STR = {1: "Sq", 2: "12_11", 3: "10_11", 4: "16_11", 5: "40_33"}
MPP_TYPE = {0: "I", 1: "P", 2: "IPB", 3: "B", 4: "EI", 5: "EP", 6: "Res(6)", 7: "Res(7)"}
OPP_FMT = {0: "Res", 1: "Sub", 2: "Q", 3: "F", 4: "4", 5: "16", 7: "Res"}


def hdr(ver="-", tr=0, fmt="-", opts=0, plus=0, opp=0, type="I", mvr="-", sss="-", layer="-", rpsm="-", trp="-", q=0,
        mux="-", pbr="-", pbq="-", extra=()):
    return ("ver=%s tr=%d fmt=%s opts=%d plus=%d opp=%d type=%s mvr=%s sss=%s layer=%s rpsm=%s trp=%s q=%d mux=%s pbr=%s pbq=%s extra=%s" %
            (ver, tr, fmt, opts, plus, opp, type, mvr, sss, layer, rpsm, trp, q, mux, pbr, pbq, hexs(bytes(extra))))


def next_bits(after_bits, trailer=TRAILER):
    """expected `next=` string: the bits following the header"""
    allb = after_bits + [(b >> (7 - i)) & 1 for b in trailer for i in range(8)]
    return "".join(str(x) for x in allb[:64])


class Gen:
    def __init__(self):
        self.cases = []      # (opts, prevhex, prev_format_none, bytes, expected token, kind)

    def add(self, opts, bits, expected_hdr, kind, prev=None, pfn=0, pad=None):
        """bits: S.Bits of the header alone.  The trailer follows immediately (not byte aligned)."""
        b = S.Bits()
        b.extend(bits)
        n = len(b)
        for byte in TRAILER:
            b.put(byte, 8)
        data = b.to_bytes()
        allbits = [(x >> (7 - i)) & 1 for x in data for i in range(8)]
        nxt = "".join(str(x) for x in allbits[n:n + 64]) or "-"
        if expected_hdr.startswith("err") or expected_hdr == "gob":
            nxt = "".join(str(x) for x in allbits[:64])
            exp = "%s next=%s" % (expected_hdr, nxt)
        else:
            exp = "ok %s next=%s" % (expected_hdr, nxt)
        if isinstance(prev, (list, tuple)):
            prevs = ",".join(hexs(x) for x in prev)      # a chain: each header parsed with the one before it as predecessor
        else:
            prevs = hexs(prev) if prev else "-"
        self.cases.append((opts, prevs, pfn, data, exp, kind))


def sorenson_cases(g, rng, thorough):
    base = dict(version=0, tr=17, size=(32, 16), ptype="I", deblock=0, quant=9, extra=())

    def one(kind, **kw):
        a = dict(base)
        a.update(kw)
        size_code = a.pop("size_code", None)
        w, h = a["size"]
        pt = a["ptype"]
        ptn = {"I": 0, "P": 1, "D": 2}.get(pt, pt)
        b = S.sorenson_header(a["version"], a["tr"], a["size"], ptn, a["deblock"], a["quant"], a["extra"], size_code)
        if size_code is None:
            size_code = 0 if (w < 256 and h < 256) else 1
        fmt = "Ext(Sq,%d,%d)" % (w, h) if size_code in (0, 1) else SOR_FMT[size_code]
        ty = {0: "I", 1: "P", 2: "D", 3: "Res(3)"}[ptn]
        g.add(1, b, hdr(ver=a["version"], tr=a["tr"], fmt=fmt, opts=65536 if a["deblock"] else 0, type=ty, mvr="U",
                        q=a["quant"], extra=a["extra"]), kind)
    for v in range(32):
        one("sorenson-version", version=v)
    for t in range(256):
        one("sorenson-tr", tr=t)
    for c in range(2, 8):
        one("sorenson-sizecode", size_code=c)
    for w in list(range(0, 256, 1 if thorough else 5)) + [255]:
        one("sorenson-size8", size=(w, 255 - w), size_code=0)
    for w in [0, 1, 255, 256, 257, 4095, 4096, 32767, 32768, 65535] + [rng.below(65536) for _ in range(200 if thorough else 40)]:
        one("sorenson-size16", size=(w, (w * 7 + 13) % 65536), size_code=1)
    for pt in range(4):
        for d in (0, 1):
            one("sorenson-type", ptype=pt, deblock=d)
    for q in range(32):
        one("sorenson-quant", quant=q)
    for n in range(4):
        one("sorenson-pei", extra=tuple(rng.below(256) for _ in range(n)))
    for _ in range(3000 if thorough else 600):
        sc = rng.choice([0, 0, 1, 2, 3, 4, 5, 6, 7])
        one("sorenson-cross", version=rng.below(32), tr=rng.below(256),
            size=(rng.below(256), rng.below(256)) if sc == 0 else (rng.below(65536), rng.below(65536)),
            size_code=sc, ptype=rng.below(4), deblock=rng.below(2), quant=rng.below(32),
            extra=tuple(rng.below(256) for _ in range(rng.choice([0, 0, 0, 1, 2]))))


def std_cases(g, rng, thorough):
    # PTYPE: all flag combinations x source formats x coding type x mode bits
    for split in (0, 1):
        for doccam in (0, 1):
            for freeze in (0, 1):
                for sf in range(1, 7):
                    for low in range(32):
                        pt, umv, sac, ap, pb = (low >> 4) & 1, (low >> 3) & 1, (low >> 2) & 1, (low >> 1) & 1, low & 1
                        tr = (split * 4 + doccam * 2 + freeze + sf * 8 + low) % 256
                        q = (low + sf) % 32
                        name = {1: "Sub", 2: "Q", 3: "F", 4: "4", 5: "16", 6: "Res"}[sf]
                        b = S.std_header(tr, sf, "P" if pt else "I", q, split, doccam, freeze, umv, sac, ap, pb, trb=5, dbquant=2)
                        opts = split * 1 + doccam * 2 + freeze * 4 + umv * 8 + sac * 16 + ap * 32
                        ty = "PB" if pb else ("P" if pt else "I")
                        g.add(0, b, hdr(tr=tr, fmt=name, opts=opts, type=ty, q=q, pbr="5" if pb else "-", pbq="7" if pb else "-"),
                              "ptype-all")
    # CPM / PSBI, PEI, TRB/DBQUANT values
    for cpm in (None, 0, 1, 2, 3):
        b = S.std_header(3, "Q", "P", 7, cpm=cpm)
        g.add(0, b, hdr(tr=3, fmt="Q", type="P", q=7, mux="-" if cpm is None else str(cpm)), "ptype-cpm")
    for trb in range(8):
        for dbq in range(4):
            b = S.std_header(3, "Q", "P", 7, pb=1, trb=trb, dbquant=dbq)
            g.add(0, b, hdr(tr=3, fmt="Q", type="PB", q=7, pbr=str(trb), pbq=str(5 + dbq)), "ptype-trb-dbquant")
    for n in range(4):
        ex = tuple(rng.below(256) for _ in range(n))
        b = S.std_header(200, "F", "I", 31, extra=ex)
        g.add(0, b, hdr(tr=200, fmt="F", type="I", q=31, extra=ex), "ptype-pei")
    for tr in range(256):
        b = S.std_header(tr, "Sub", "I", tr % 32)
        g.add(0, b, hdr(tr=tr, fmt="Sub", type="I", q=tr % 32), "ptype-tr-quant")
    # after a previous header: an INTRA picture may change the format (it has no reference picture to resample), a
    # predicted picture that changes it is refused (resampling is not implemented), the same format is always fine
    names = {1: "Sub", 2: "Q", 3: "F", 4: "4", 5: "16"}
    for psf in range(1, 6):
        pb_ = S.Bits(); pb_.extend(S.std_header(9, psf, "I", 4)); pb_.put(0, 7)
        for sf in range(1, 6):
            for ptype in ("I", "P"):
                for pb in (0, 1):
                    b = S.std_header(40 + sf, sf, ptype, 9, pb=pb, trb=3, dbquant=1)
                    ty = "PB" if pb else ptype
                    if sf != psf and ty != "I":
                        exp = "err:Unimplemented"
                    else:
                        exp = hdr(tr=40 + sf, fmt=names[sf], type=ty, q=9, pbr="3" if pb else "-", pbq="6" if pb else "-")
                    g.add(0, b, exp, "ptype-after-header", prev=pb_.to_bytes(), pfn=0)
    # marker bits of PTYPE: bits 1-2 must be '10'; source format 000 is forbidden
    for m in (0, 1, 3):
        b = S.Bits().put(1, 17).put(0, 5).put(9, 8).put(m, 2).put(0, 3).put(2, 3).put(0, 5).put(5, 5).put(0, 1).put(0, 1)
        g.add(0, b, "err:InvalidPType", "ptype-marker")
    b = S.Bits().put(1, 17).put(0, 5).put(9, 8).put(2, 2).put(0, 3).put(0, 3).put(0, 5).put(5, 5).put(0, 1).put(0, 1)
    g.add(0, b, "err:InvalidPType", "ptype-srcfmt-000")
    # a GOB start code (GN != 0) is not a picture header
    for gn in (1, 7, 17, 31):
        b = S.Bits().put(1, 17).put(gn, 5).put(9, 8).put(2, 2)
        g.add(0, b, "gob", "gob-header")


def plus_fields(a):
    """expected header string for a PLUSPTYPE header described by encoder arguments a"""
    opts = a.get("split", 0) * 1 + a.get("doccam", 0) * 2 + a.get("freeze", 0) * 4
    ufep = a.get("ufep", 1)
    if ufep == 1:
        opts += (a.get("umv", 0) * 8 + a.get("sac", 0) * 16 + a.get("ap", 0) * 32 + a.get("aic", 0) * 64 + a.get("df", 0) * 128 +
                 a.get("ss", 0) * 256 + a.get("rps", 0) * 512 + a.get("isd", 0) * 1024 + a.get("aiv", 0) * 2048 + a.get("mq", 0) * 4096)
    else:
        opts += a.get("inherited", 0)
    opts += a.get("rpr", 0) * 8192 + a.get("rru", 0) * 16384 + a.get("rtype", 0) * 32768
    fmt = "-"
    if ufep == 1:
        f = a.get("fmt", 6)
        if f == 6:
            par = a.get("par", 1)
            ps = PAR_STR.get(par) or ("X(%d,%d)" % a.get("epar", (1, 1)) if par == 15 else "R(%d)" % par)
            fmt = "Ext(%s,%d,%d)" % (ps, (a.get("pwi", 3) + 1) * 4, a.get("phi", 4) * 4)
        else:
            fmt = OPP_FMT[f]
    tr = a["tr"]
    pcf = ufep == 1 and a.get("pcf", 0)
    if pcf:
        tr |= a.get("etr", 0) << 8
    mvr = "-"
    if ufep == 1 and a.get("umv", 0):
        mvr = "E" if a.get("uui", 1) == 1 else "U"
    sss = "-"
    if ufep == 1 and a.get("ss", 0):
        v = a.get("sss", 0)
        sss = str((1 if v & 2 else 0) + (2 if v & 1 else 0))     # first bit: rectangular (flag 1); second: arbitrary order (flag 2)
    layer = "-"
    if a.get("scalability"):
        layer = "%d/%s" % (a.get("elnum") or 0, str(a.get("rlnum") or 0) if ufep == 1 else "-")
    rpsm = "-"
    if ufep == 1 and a.get("rps", 0):
        v = a.get("rpsmf", 4)
        rpsm = str((0 if v & 4 else 1) + (2 if v & 2 else 0) + (4 if v & 1 else 0))
    trp = "-"
    rps_on = (ufep == 1 and a.get("rps", 0)) or (ufep == 0 and (a.get("inherited", 0) & 512))
    if rps_on and a.get("trpi") is not None:
        trp = str(a["trpi"])
    pt = a.get("ptype", 0)
    pbr = pbq = "-"
    if pt == 2:
        pbr, pbq = str(a.get("trb", 0)), str(5 + a.get("dbquant", 0))
    cpm = a.get("cpm")
    return hdr(tr=tr, fmt=fmt, opts=opts, plus=1, opp=1 if ufep == 1 else 0, type=MPP_TYPE[pt], mvr=mvr, sss=sss, layer=layer,
               rpsm=rpsm, trp=trp, q=a["quant"], mux="-" if cpm is None else str(cpm), pbr=pbr, pbq=pbq, extra=a.get("extra", ()))


def plus_cases(g, rng, thorough):
    def one(kind, opts=0, prev=None, pfn=0, expect=None, **a):
        a.setdefault("tr", 77)
        a.setdefault("quant", 11)
        enc = {k: v for k, v in a.items() if k != "inherited"}
        if "rps" in a and a.get("ufep", 1) == 0:
            pass
        tr = enc.pop("tr")
        q = enc.pop("quant")
        if opts & 2:
            enc["scalability"] = True
            a["scalability"] = True
        b = S.plus_header(tr, q, **enc)
        g.add(opts, b, expect or plus_fields(a), kind, prev=prev, pfn=pfn)
    # OPPTYPE: source format codes, all 2^10 mode-bit patterns (RPS needs TRPI/BCI, SS needs SSS, UMV needs UUI)
    for f in (0, 1, 2, 3, 4, 5, 7):
        one("opptype-fmt", fmt=f)
    for bits in range(1024):
        umv, sac, ap, aic, df, ss, rps, isd, aiv, mq = [(bits >> (9 - i)) & 1 for i in range(10)]
        one("opptype-modebits", umv=umv, sac=sac, ap=ap, aic=aic, df=df, ss=ss, rps=rps, isd=isd, aiv=aiv, mq=mq,
            uui=1 + bits % 2, sss=bits % 4, rpsmf=bits % 8, trpi=(bits * 5) % 1024 if bits % 3 else None)
    # MPPTYPE: picture types, RRU, RTYPE (RPR requires the unimplemented RPRP: rejected)
    for pt in range(8):
        for rru in (0, 1):
            for rtype in (0, 1):
                one("mpptype", ptype=pt, rru=rru, rtype=rtype, trb=pt % 8, dbquant=pt % 4)
    one("mpptype-rpr", rpr=1, expect="err:Unimplemented")
    # fixed bits of OPPTYPE (last four '1000') and MPPTYPE (last three '001'), UFEP values
    for t in range(16):
        if t != 8:
            one("opptype-marker", opp_tail=t, expect="err:InvalidPlusPType")
    for t in range(8):
        if t != 1:
            one("mpptype-marker", mpp_tail=t, expect="err:InvalidPlusPType")
    for u in range(2, 8):
        one("ufep-reserved", ufep=u, expect="err:InvalidPlusPType")
    # CPM/PSBI
    for cpm in (None, 0, 1, 2, 3):
        one("plus-cpm", cpm=cpm)
    # CPFMT: widths x heights, pixel aspect ratios, EPAR
    hs = [0, 1, 63, 64, 255, 256, 287, 288, 511]
    ws = range(512) if True else []
    for pwi in ws:
        for phi in (hs if (thorough or pwi % 8 == 0 or pwi in (1, 255, 257, 511)) else [hs[pwi % len(hs)], 288]):
            one("cpfmt-size", pwi=pwi, phi=phi)
    for phi in range(512):
        one("cpfmt-size", pwi=(phi * 7) % 512, phi=phi)
    for par in range(1, 16):
        one("cpfmt-par", par=par, epar=(3, 200))
    one("cpfmt-par0", par=0, expect="err:PictureFormatInvalid")
    for ep in ((0, 5), (5, 0)):
        one("cpfmt-epar0", par=15, epar=ep, expect="err:PictureFormatInvalid")
    # CPFMT bit 14 must be 1
    b = S.plus_header(77, 11)
    bad = S.Bits()
    bad.extend(b.b[:17 + 5 + 8 + 8 + 3 + 18 + 9 + 1 + 13] + [0] + b.b[17 + 5 + 8 + 8 + 3 + 18 + 9 + 1 + 14:])
    g.add(0, bad, "err:PictureFormatInvalid", "cpfmt-marker")
    # CPCFC + ETR
    for c in range(256):
        one("cpcfc-etr", pcf=1, cpcfc=c, etr=c % 4, tr=c)
    # PB with custom clock: 5-bit TRB
    for trb in range(32):
        one("trb5", pcf=1, cpcfc=1, ptype=2, trb=trb, dbquant=trb % 4)
    # UUI, SSS, RPSMF, TRP
    for u in (1, 2):
        one("uui", umv=1, uui=u)
    b = S.plus_header(77, 11, umv=1, uui=1)
    bad = S.Bits()
    i = 17 + 5 + 8 + 8 + 3 + 18 + 9 + 1 + 23
    bad.extend(b.b[:i] + [0, 0] + b.b[i + 1:])
    g.add(0, bad, "err:InvalidBitstream", "uui-00")
    for v in range(4):
        one("sss", ss=1, sss=v)
    for v in range(8):
        one("rpsmf", rps=1, rpsmf=v)
    for t in [None, 0, 1, 512, 1023] + [rng.below(1024) for _ in range(20)]:
        one("trp", rps=1, trpi=t)
    one("bci-1", rps=1, bci="1", expect="err:Unimplemented")
    one("bci-00", rps=1, bci="00", expect="err:InvalidBitstream")
    # ELNUM / RLNUM when scalability is negotiated
    for e in range(16):
        one("elnum-rlnum", opts=2, elnum=e, rlnum=15 - e)
    # inheritance: UFEP = 000 takes the OPPTYPE options of the previous header
    for bits in ([0, 1023] + [1 << k for k in range(10)] + [rng.below(1024) for _ in range(60 if not thorough else 400)]):
        umv, sac, ap, aic, df, ss, rps, isd, aiv, mq = [(bits >> (9 - i)) & 1 for i in range(10)]
        prevb = S.plus_header(1, 2, umv=umv, sac=sac, ap=ap, aic=aic, df=df, ss=ss, rps=rps, isd=isd, aiv=aiv, mq=mq,
                              trpi=None, split=1, rtype=1)
        inherited = umv * 8 + sac * 16 + ap * 32 + aic * 64 + df * 128 + ss * 256 + rps * 512 + isd * 1024 + aiv * 2048 + mq * 4096
        pb = S.Bits(); pb.extend(prevb); pb.put(0, 7)
        one("ufep0-inherit", prev=pb.to_bytes(), pfn=1, ufep=0, inherited=inherited, rps=rps, trpi=5 if rps else None,
            ptype=1, rru=bits % 2)
        # the same with the previous header exactly as it was parsed (it carries its custom format): a header that does
        # not retransmit the format has not changed it, so it must parse and inherit
        one("ufep0-inherit-after-parsed-header", prev=pb.to_bytes(), pfn=0, ufep=0, inherited=inherited, rps=rps, trpi=5 if rps else None,
            ptype=1, rru=bits % 2)
        # chains: the modes stay in force through any number of headers that do not retransmit them
        if bits in (0, 1023) or bits & (bits - 1) == 0 or rng.below(2) == 0:
            for hops in (1, 2):
                chain = [pb.to_bytes()]
                for k in range(hops):
                    mid = S.Bits(); mid.extend(S.plus_header(3 + k, 4 + k, ufep=0, rps=rps, trpi=9 + k if rps else None, ptype=1)); mid.put(0, 7)
                    chain.append(mid.to_bytes())
                one("ufep0-inherit-chain", prev=chain, pfn=0, ufep=0, inherited=inherited, rps=rps, trpi=5 if rps else None,
                    ptype=1, rru=bits % 2)
    one("ufep0-no-prev", ufep=0, ptype=1)
    # ... and with scalability negotiated: ELNUM is present, RLNUM is not (5.1.12: RLNUM only when UFEP = 001)
    for e in range(16):
        one("ufep0-elnum", opts=2, ufep=0, ptype=1, elnum=e, quant=1 + (5 * e) % 31, extra=(e, 255 - e))
    # cross-field
    for _ in range(20000 if thorough else 2500):
        a = dict(fmt=rng.choice([6, 6, 6, 1, 2, 3, 4, 5]), pcf=rng.below(2), umv=rng.below(2), sac=rng.below(2), ap=rng.below(2),
                 aic=rng.below(2), df=rng.below(2), ss=rng.below(2), rps=rng.below(2), isd=rng.below(2), aiv=rng.below(2),
                 mq=rng.below(2), ptype=rng.choice([0, 1, 1, 2, 3, 4, 5]), rru=rng.below(2), rtype=rng.below(2),
                 cpm=rng.choice([None, None, 0, 3]), par=rng.choice([1, 2, 3, 4, 5, 6, 14, 15]), pwi=rng.below(512), phi=rng.below(512),
                 epar=(rng.range(1, 255), rng.range(1, 255)), cpcfc=rng.below(256), etr=rng.below(4), uui=rng.range(1, 2),
                 sss=rng.below(4), rpsmf=rng.below(8), trpi=rng.choice([None, rng.below(1024)]), tr=rng.below(256),
                 quant=rng.below(32), trb=rng.below(8), dbquant=rng.below(4), split=rng.below(2), doccam=rng.below(2),
                 freeze=rng.below(2), extra=tuple(rng.below(256) for _ in range(rng.choice([0, 0, 1, 3]))))
        o = rng.choice([0, 0, 2])
        if o == 2:
            a["elnum"], a["rlnum"] = rng.below(16), rng.below(16)
        if a["pcf"] and a["ptype"] == 2:
            a["trb"] = rng.below(32)
        one("plus-cross", opts=o, **a)


def decoded_picture_cases(ctx, thorough):
    """histories through decode_next_picture: what a decoded picture reports (temporal reference, type, quantizer) and the
    size it has - the size in force, which a header that does not retransmit the format inherits through any number of
    predecessors.  Returns (cases, expectations) with expectations[idx] = list of (tr, type, q, w, h) per call."""
    from vlib import decsuite, picgen
    rng = ctx.rng.fork("c06-decoded")
    cases, exp = [], {}
    idx = 0
    # standard mode: a format is transmitted once (plain PTYPE size or custom PLUSPTYPE size), then chains of predicted pictures
    # of which each either retransmits it (UFEP=001) or not (UFEP=000)
    sizes = [(128, 96), (176, 144), (32, 16), (20, 12), (64, 48), (4, 4), (36, 100)]
    for n in range(60 if thorough else 24):
        w, h = sizes[n % len(sizes)]
        chain = 1 + n % 5
        ops, want = [], []
        tr = rng.below(256)
        q = rng.range(1, 31)
        ops.append(decsuite.D(picgen.gen_picture(rng, "std", "I", w, h, tr=tr, quant=q, sparse=1, extra=[])[0].to_bytes()))
        want.append((tr, "I", q, w, h))
        for k in range(chain):
            tr = (tr + 1 + rng.below(3)) % 256
            q = rng.range(1, 31)
            # pattern of the chain: bit k of n decides whether picture k retransmits the format
            plus = {"ufep": 0} if ((n >> k) & 1) == 0 or (w, h) in ((128, 96), (176, 144)) else {}
            if (w, h) in ((128, 96), (176, 144)) and ((n >> k) & 1):
                plus = None          # a plain PTYPE header naming the standard size again
            ops.append(decsuite.D(picgen.gen_picture(rng, "std", "P", w, h, tr=tr, quant=q, sparse=1, extra=[], plus=plus)[0].to_bytes()))
            want.append((tr, "P", q, w, h))
        cases.append((idx, 0, ops)); exp[idx] = want; idx += 1
    # Sorenson: every size code, version 0 and 1, I then P (a disposable picture every third time)
    from vlib import h263spec as S
    sor = [(0, (200, 36)), (0, (255, 1)), (1, (256, 8)), (1, (24, 300)), (2, (352, 288)), (3, (176, 144)), (4, (128, 96)), (5, (320, 240)), (6, (160, 120))]
    for n, (code, (w, h)) in enumerate(sor):
        for mode in ("v0", "v1"):
            ops, want = [], []
            tr = rng.below(256); q = rng.range(1, 31)
            for k, pt in enumerate(("I", "P", "D" if n % 3 == 0 else "P")):
                b = S.Bits()
                b.extend(picgen.header_bits(mode, pt, tr, w, h, q, deblock=k % 2, size_code=code))
                mbs = ((w + 15) // 16) * ((h + 15) // 16)
                for _ in range(mbs):
                    if pt == "I":
                        mb = {"kind": "coded", "type": S.INTRA, "cbp": [0] * 6, "blocks": [(77, [])] * 6}
                        b.extend(S.macroblock_bits("I", mb, mode))
                    else:
                        b.extend(S.macroblock_bits("P", {"kind": "uncoded"}, mode))
                ops.append(decsuite.D(b.to_bytes()))
                want.append((tr, pt, q, w, h))
                tr = (tr + 1) % 256; q = rng.range(1, 31)
            cases.append((idx, 1, ops)); exp[idx] = want; idx += 1
    return cases, exp


def run_decoded_pictures(ctx, thorough, broken):
    from vlib import decsuite
    cases, exp = decoded_picture_cases(ctx, thorough)
    io = decsuite.run_impl(ctx, "c06dec", cases)
    mo = decsuite.run_model(ctx, "c06dec", cases)
    found = False
    nontriv = set()
    for (idx, o, ops) in cases:
        toks = io.get(idx, [])
        for k, (tr, pt, q, w, h) in enumerate(exp[idx]):
            t = decsuite.parse_tok(toks[k]) if k < len(toks) else {"cls": "missing", "last": None}
            problem = None
            if t["cls"] != "ok" or not t["last"]:
                problem = "call %d (%s picture, tr %d) is rejected: %s" % (k, pt, tr, t["cls"])
            else:
                m = __import__("re").match(r"^\[(.*) (\d+)x(\d+)/(\d+) ", t["last"])
                hdrs, gw, gh, cw = m.group(1), int(m.group(2)), int(m.group(3)), int(m.group(4))
                got = (int(decsuite.hdr_field(hdrs, "tr")), decsuite.hdr_field(hdrs, "type"), int(decsuite.hdr_field(hdrs, "q")), gw, gh)
                if got != (tr, pt, q, w, h) or cw != (w + 1) // 2:
                    problem = "call %d reports (tr, type, quantizer, width, height) = %s, encoded %s" % (k, got, (tr, pt, q, w, h))
            if problem:
                ctx.violation({"kind": "decoded-picture", "class_key": problem[:18], "options": o, "ops": ops, "call": k,
                               "spec": "every picture of the history is accepted and reports the temporal reference, type and quantizer of its header and the size in force "
                                       "(the format last transmitted, inherited by headers that do not retransmit it)",
                               "implementation": problem}, problem)
                found = True
                break
        else:
            nontriv.add(idx)
            if not decsuite.same_shape(mo.get(idx), io.get(idx), upto_crash=True):
                broken.append("correspondence decoded-picture: model and implementation differ on history %d" % idx)
    ctx.count("decoded-picture (histories through decode_next_picture: reported header fields and size in force)", len(cases), nontriv,
              sample={"options": cases[0][1], "ops": [x[:60] for x in cases[0][2]]},
              note="standard mode: format transmitted once, then chains of 1-5 predicted pictures each retransmitting it or not (UFEP=000), "
                   "standard and custom sizes; Sorenson: all seven size codes x versions 0/1, I P P|D")
    return found


def run(ctx):
    thorough = ctx.tier == "thorough"
    broken = common.proof_step(ctx, THEOREMS, BRIDGES, allowed_axioms=common.REALS_AXIOMS)
    err = common.ensure_runners(ctx)
    if err:
        ctx.violation({"kind": "build", "names": "harness build failed", "log": err[-2000:]}, "harness does not build", found_input=False)
        return
    found = False
    g = Gen()
    rng = ctx.rng.fork("c06")
    sorenson_cases(g, rng, thorough)
    std_cases(g, rng, thorough)
    plus_cases(g, rng, thorough)
    p = ctx.path("hdr.cases")
    with open(p, "w") as f:
        for i, (o, prev, pfn, data, exp, kind) in enumerate(g.cases):
            f.write("%d %d %s %d %s\n" % (i, o, prev, pfn, hexs(data)))
    io = common.impl(["header", p])
    mo = common.model(["header", p])
    kinds = {}
    nontriv = set()
    for i, (o, prev, pfn, data, exp, kind) in enumerate(g.cases):
        kinds[kind] = kinds.get(kind, 0) + 1
        li = io[i].split(" ", 1)[1]
        lm = mo[i].split(" ", 1)[1]
        if li != exp:
            ctx.violation({"kind": "header", "class_key": kind, "options": o, "prev_hex": prev, "prev_format_none": pfn, "data_hex": hexs(data),
                           "field_family": kind, "spec": exp, "implementation": li},
                          "%s: header parses to\n      %s\n   expected (H.263 5.1 / Sorenson)\n      %s" % (kind, li, exp))
            found = True
        elif lm != li:
            broken.append("correspondence header: model differs from implementation on a %s case" % kind)
        nontriv.add(exp)
    ctx.cov["field_families"] = kinds
    ctx.count("header (parser::decode_picture; implementation vs the field values that were encoded; model = implementation)",
              len(g.cases), nontriv, sample={"options": g.cases[4000][0], "data_hex": hexs(g.cases[4000][3]), "expected": g.cases[4000][4]},
              exhaustive=True,
              note="exhaustive per field family (counts in field_families) with the other fields at defaults, plus seeded cross-field cases; "
                   "every header is followed by a 9-byte trailer so that the position after the header is observed as the next 64 bits")
    found = run_decoded_pictures(ctx, thorough, broken) or found
    ctx.cov["rule"] = ("headers are produced by my encoder of H.263 5.1 / the Sorenson header from field values; the expected result is the "
                       "canonical rendering of those field values (or the error for wrong marker bits / unsupported fields); non-trivial = distinct expected result")
    if len(broken) > 3:
        broken = broken[:3] + ["... %d more" % (len(broken) - 3)]
    if broken and not found:
        ctx.violation({"kind": "unproved", "names": broken, "note": "no header of the enumeration is parsed wrongly"},
                      "; ".join(broken)[:400], found_input=False)


def replay(ctx, path):
    r = json.load(open(path))
    common.ensure_runners(ctx)
    if r.get("kind") == "header":
        p = ctx.path("replay.cases")
        open(p, "w").write("0 %d %s %d %s\n" % (r["options"], r["prev_hex"], r["prev_format_none"], r["data_hex"]))
        li = common.impl(["header", p])[0].split(" ", 1)[1]
        print("implementation:", li)
        print("spec:          ", r["spec"])
        bad = li != r["spec"]
        print("REPRODUCED" if bad else "NOT-REPRODUCED")
        return 1 if bad else 0
    if r.get("kind") == "decoded-picture":
        from vlib import decsuite
        io = decsuite.run_impl(ctx, "replay", [(0, r["options"], r["ops"])])
        print("implementation:", " | ".join(t[:150] for t in io[0]))
        print("spec:", r["spec"])
        return 1
    print("replay names broken obligations only:", r.get("names"))
    return 1
