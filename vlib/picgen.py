"""Seeded generators of valid (and deliberately broken) pictures, built on h263spec encoders."""
from vlib import h263spec as S
from vlib.h263spec import Bits

ZIGZAG = [(0, 0), (1, 0), (0, 1), (0, 2), (1, 1), (2, 0), (3, 0), (2, 1), (1, 2), (0, 3), (0, 4), (1, 3), (2, 2), (3, 1), (4, 0),
          (5, 0), (4, 1), (3, 2), (2, 3), (1, 4), (0, 5), (0, 6), (1, 5), (2, 4), (3, 3), (4, 2), (5, 1), (6, 0), (7, 0), (6, 1),
          (5, 2), (4, 3), (3, 4), (2, 5), (1, 6), (0, 7), (1, 7), (2, 6), (3, 5), (4, 4), (5, 3), (6, 2), (7, 1), (7, 2), (6, 3),
          (5, 4), (4, 5), (3, 6), (2, 7), (3, 7), (4, 6), (5, 5), (6, 4), (7, 3), (7, 4), (6, 5), (5, 6), (4, 7), (5, 7), (6, 6),
          (7, 5), (7, 6), (6, 7), (7, 7)]
# my own construction of the zig-zag scan (anti-diagonal walk), independent of the table above
def zigzag_walk():
    out = []
    for s in range(15):
        cells = [(x, s - x) for x in range(8) if 0 <= s - x < 8]
        # odd diagonals run top-right to bottom-left (x decreasing), even ones the other way (H.263 figure 14)
        cells.sort(key=lambda c: c[0], reverse=(s % 2 == 1))
        out += cells
    return out


def level_range(form):
    return {"short": 12, "esc": 127, "esc7": 63, "esc11": 1023}[form]


def gen_events(rng, mode, start, shape, max_events=None, force_escape_p=8):
    """events for one block; zig-zag positions start..63 available. shape: 'row' | 'col' | 'dense' | 'one'."""
    if shape == "row":
        avail = [i for i in range(start, 64) if ZIGZAG[i][1] == 0]
    elif shape == "col":
        avail = [i for i in range(start, 64) if ZIGZAG[i][0] == 0]
    else:
        avail = list(range(start, 64))
    if not avail:
        avail = [start]
    if shape == "one":
        k = 1
    else:
        k = rng.range(1, min(len(avail), max_events or (len(avail) if shape != "dense" else rng.choice([3, 8, 20, 63]))))
    # choose k positions
    pos = sorted(set(rng.choice(avail) for _ in range(k)))
    events = []
    prev = start
    for n, p in enumerate(pos):
        run = p - prev
        last = 1 if n == len(pos) - 1 else 0
        prev = p + 1
        # level
        r = rng.below(10)
        if r < 5:
            mag = rng.range(1, 3)
        elif r < 8:
            mag = rng.range(1, 12)
        else:
            mag = rng.range(1, 1023)
        esc_forms = ["esc"] if mode in ("std", "v0") else ["esc7", "esc11"]
        form = "short"
        if (last, run, mag) not in S.TCOEF or rng.below(force_escape_p) == 0:
            form = rng.choice(esc_forms)
            lim = level_range(form)
            if mag > lim:
                if mode == "v1":
                    form = "esc11"
                else:
                    mag = 1 + mag % lim
        level = -mag if rng.below(2) else mag
        events.append((form, last, run, level))
    return events


def gen_block(rng, mode, intra, coded):
    dc = None
    if intra:
        dc = rng.choice([v for v in ([1, 2, 127, 129, 254, 255, 16, 64, 200] + [rng.range(1, 255)] * 4) if v not in (0, 128)])
    events = []
    if coded:
        shape = rng.choice(["one", "row", "col", "dense", "dense"])
        events = gen_events(rng, mode, 1 if intra else 0, shape)
    return (dc, events)


def gen_mb(rng, mode, pic_type, allow=None, sparse=5, umv=False):
    """one coded macroblock"""
    if pic_type == "I":
        t = rng.choice([S.INTRA, S.INTRA, S.INTRAQ])
    else:
        t = rng.choice(allow or [S.INTER, S.INTER, S.INTERQ, S.INTER4V, S.INTER4VQ, S.INTRA, S.INTRAQ])
    intra = t in (S.INTRA, S.INTRAQ)
    cbp = [1 if rng.below(10) < sparse else 0 for _ in range(6)]
    mb = {"kind": "coded", "type": t, "cbp": cbp}
    if t in (S.INTERQ, S.INTRAQ, S.INTER4VQ):
        mb["dquant"] = rng.choice([-2, -1, 1, 2])
    if not intra:
        def d():
            r = rng.below(10)
            if r < 5:
                return rng.range(-3, 3)
            if umv:
                return rng.choice([4095, -4095, 4095, rng.range(-4095, 4095), rng.range(-64, 64)])
            return rng.range(-32, 31)
        mb["mvd"] = (d(), d())
        if t in (S.INTER4V, S.INTER4VQ):
            mb["mvd234"] = [(d(), d()) for _ in range(3)]
    mb["blocks"] = [gen_block(rng, mode, intra, cbp[k]) for k in range(6)]
    return mb


def header_bits(mode, ptype, tr, w, h, quant, deblock=0, extra=(), size_code=None, plus=None):
    """mode 'v0'|'v1' -> Sorenson (version 0/1); 'std' -> standard. For 'std': custom size via PLUSPTYPE
    unless (w,h) is a standard size."""
    if mode in ("v0", "v1"):
        return S.sorenson_header(0 if mode == "v0" else 1, tr, (w, h), ptype, deblock, quant, extra, size_code)
    for name, sz in S.STD_SIZES.items():
        if sz == (w, h) and not plus:
            return S.std_header(tr, name, ptype, quant, extra=extra)
    assert w % 4 == 0 and h % 4 == 0 and 4 <= w <= 2048 and 4 <= h <= 1152
    kw = dict(plus or {})
    return S.plus_header(tr, quant, fmt=6, pwi=w // 4 - 1, phi=h // 4, ptype=0 if ptype == "I" else 1, extra=extra, **kw)


def gen_picture(rng, mode, ptype, w, h, tr=None, quant=None, stuffing_p=12, uncoded_p=4, truncate_mbs=None, sparse=5,
                allow=None, extra=None, deblock=None, plus=None, umv=False):
    """A valid picture. Returns (Bits, desc)."""
    tr = rng.below(256) if tr is None else tr
    quant = rng.range(1, 31) if quant is None else quant
    extra = ([rng.below(256) for _ in range(rng.below(3))] if rng.below(6) == 0 else []) if extra is None else extra
    deblock = rng.below(2) if deblock is None else deblock
    b = Bits()
    b.extend(header_bits(mode, ptype, tr, w, h, quant, deblock, extra, plus=plus))
    mbw, mbh = (w + 15) // 16, (h + 15) // 16
    n = mbw * mbh if truncate_mbs is None else truncate_mbs
    mbs = []
    pt = "I" if ptype == "I" else "P"
    for _ in range(n):
        while rng.below(100) < stuffing_p and (pt == "P" or True):
            mbs.append({"kind": "stuffing"})
        if pt == "P" and rng.below(10) < uncoded_p:
            mbs.append({"kind": "uncoded"})
        else:
            mbs.append(gen_mb(rng, mode, pt, allow=allow, sparse=sparse, umv=umv))
    for mb in mbs:
        b.extend(S.macroblock_bits(pt, mb, mode, S.umv_code if umv else None))
    desc = {"mode": mode, "ptype": ptype, "w": w, "h": h, "tr": tr, "quant": quant, "extra": list(extra), "deblock": deblock,
            "mbs": mbs}
    return b, desc


def flat_picture(mode, ptype, w, h, tr, value, quant=5, residual=None):
    """I picture: every block DC-only with INTRADC `value`; P/D picture: all macroblocks INTER with zero
    differential and (optionally) one DC residual coefficient in luma block 0, so that the reference used shows in the pixels."""
    b = Bits()
    b.extend(header_bits(mode, ptype, tr, w, h, quant))
    n = ((w + 15) // 16) * ((h + 15) // 16)
    pt = "I" if ptype == "I" else "P"
    for _ in range(n):
        if pt == "I":
            mb = {"kind": "coded", "type": S.INTRA, "cbp": [0] * 6, "blocks": [(value, [])] * 6}
        else:
            ev = []
            cbp = [0] * 6
            if residual:
                cbp[0] = 1
                ev = [("short", 1, 0, residual)]
            mb = {"kind": "coded", "type": S.INTER, "cbp": cbp, "mvd": (0, 0), "blocks": [(None, ev)] + [(None, [])] * 5}
        b.extend(S.macroblock_bits(pt, mb, mode))
    return b


def history_prefix(rng, mode, w, h):
    """Decode calls that an INTRA picture of size w x h decoded afterwards must not depend on: nothing (half the time),
    pictures of another size, a rejected delivery, an earlier intra / predicted pair of the same size.  Returns a list
    of byte strings (one decode call each)."""
    k = rng.below(8)
    if k < 4:
        return []
    ow, oh = rng.choice([(16, 16), (32, 16), (w + 16, h), (w, h + 16), (max(1, w - 1), h)])
    if mode == "std":
        ow, oh = max(4, (ow + 3) // 4 * 4), max(4, (oh + 3) // 4 * 4)
    other_i = gen_picture(rng, mode, "I", ow, oh, sparse=2, quant=rng.range(1, 31))[0].to_bytes()
    if k == 4:
        return [other_i]
    if k == 5:
        return [other_i, gen_picture(rng, mode, "P", ow, oh, sparse=2)[0].to_bytes()]
    if k == 6:
        return [other_i, bytes([0x55, 0xAA, 0x55, 0xAA, 0x12 + rng.below(4)])]       # no start code: rejected
    same_i = gen_picture(rng, mode, "I", w, h, sparse=2)[0].to_bytes()
    return [same_i, gen_picture(rng, mode, "P", w, h, sparse=2)[0].to_bytes()]
