"""C08 — RGBA output pairs every luma sample with its 4:2:0 chroma sample, at any size."""
import json
from vlib import common
from vlib.common import hexs

THEOREMS = ["C08_layout", "C08_length", "C08_pixel", "C08_empty"]
BRIDGES = []


def gen_cases(ctx, wmax, hmax):
    rng = ctx.rng.fork("c08")
    cases = []
    idx = 0
    for w in range(1, wmax + 1):
        for h in range(1, hmax + 1):
            bw, bh = (w + 1) // 2, (h + 1) // 2
            mode = (w + h) % 3
            if mode == 0:      # few distinct values: every sample identifies its position class
                y = bytes(16 + ((x * 7 + yy * 13) % 200) for yy in range(h) for x in range(w))
                cb = bytes(16 + ((x * 31 + yy * 17) % 220) for yy in range(bh) for x in range(bw))
                cr = bytes(240 - ((x * 11 + yy * 29) % 220) for yy in range(bh) for x in range(bw))
            else:
                y, cb, cr = rng.bytes(w * h), rng.bytes(bw * bh), rng.bytes(bw * bh)
            cases.append((idx, w, h, y, cb, cr))
            idx += 1
    return cases


def write_cases(path, cases):
    with open(path, "w") as f:
        for (i, w, h, y, cb, cr) in cases:
            f.write("%d %d %s %s %s\n" % (i, w, hexs(y), hexs(cb), hexs(cr)))


def impl_px_table(ctx, triples):
    """the implementation's own conversion of single pixels (1x1 pictures)"""
    tl = sorted(triples)
    p = ctx.path("px1.cases")
    with open(p, "w") as f:
        for i, (y, cb, cr) in enumerate(tl):
            f.write("%d 1 %02x %02x %02x\n" % (i, y, cb, cr))
    out = common.impl(["yuv-img", p])
    tab = {}
    for t, l in zip(tl, out):
        fs = l.split()
        tab[t] = bytes.fromhex(fs[2]) if fs[1] == "ok" else None
    return tab


def layout_expected(w, h, y, cb, cr, tab):
    bw = (w + 1) // 2
    out = bytearray()
    for yy in range(h):
        for x in range(w):
            v = tab[(y[x + yy * w], cb[x // 2 + (yy // 2) * bw], cr[x // 2 + (yy // 2) * bw])]
            if v is None:
                return None
            out += v
    return bytes(out)


def run(ctx):
    thorough = ctx.tier == "thorough"
    broken = common.proof_step(ctx, THEOREMS, BRIDGES)
    err = common.ensure_runners(ctx)
    if err:
        ctx.violation({"kind": "build", "names": "harness build failed", "log": err[-2000:]}, "harness does not build", found_input=False)
        return
    found = False
    cases = gen_cases(ctx, 260 if thorough else 70, 40 if thorough else 12)
    if thorough:
        cases = [c for c in cases if c[1] <= 70 or c[2] <= 6 or (c[1] * 7 + c[2]) % 5 == 0]
    cases.append((len(cases) + 100000, 0, 0, b"", b"", b""))       # the empty picture
    p = ctx.path("img.cases")
    write_cases(p, cases)
    io = common.impl(["yuv-img", p])
    mo = common.model(["yuv-img", "model", p])
    triples = set()
    for (_, w, h, y, cb, cr) in cases:
        bw = (w + 1) // 2
        for yy in range(h):
            for x in range(w):
                triples.add((y[x + yy * w], cb[x // 2 + (yy // 2) * bw], cr[x // 2 + (yy // 2) * bw]))
    tab = impl_px_table(ctx, triples)
    nontriv = set()
    pxdiff = 0
    for c, li, lm in zip(cases, io, mo):
        _, w, h, y, cb, cr = c
        fs = li.split()
        got = (bytes.fromhex(fs[2]) if fs[2] != "-" else b"") if fs[1] == "ok" else None
        want = layout_expected(w, h, y, cb, cr, tab)
        if got is None or want is None or got != want:
            wh = None
            if got is not None and want is not None and len(got) == len(want):
                k = next(i for i in range(len(got)) if got[i] != want[i]) // 4
                wh = {"x": k % w, "y": k // w, "got": list(got[4 * k:4 * k + 4]), "want": list(want[4 * k:4 * k + 4])}
            ctx.violation({"kind": "yuv-img", "width": w, "height": h, "y_hex": hexs(y), "cb_hex": hexs(cb), "cr_hex": hexs(cr),
                           "spec": "pixel (x,y) = conversion of Y[x+y*w] with Cb,Cr at [x/2 + (y/2)*ceil(w/2)]; output has 4*w*h bytes",
                           "first_difference": wh,
                           "implementation": "panic" if got is None else "len %d" % len(got)},
                          "yuv420_to_rgba %dx%d: %s" % (w, h, "panic" if got is None else "wrong pixel %s" % (wh,)))
            found = True
        elif li != lm:
            pxdiff += 1
        if w >= 1 and h >= 1:
            nontriv.add((w, h))
    if pxdiff:
        ctx.cov["tie"]["note"] = ("%d images have the right layout but differ from the model in pixel values: "
                                  "the pixel kernel differs from the model's (property C07), the layout (C08) is intact" % pxdiff)
    ctx.count("yuv-img layout (every size of the grid)", len(cases), nontriv,
              sample={"w": cases[37][1], "h": cases[37][2], "y_hex": hexs(cases[37][3])[:40], "cb_hex": hexs(cases[37][4])[:20]},
              exhaustive=True,
              note=("widths 1..260 x heights 1..40 (all up to 70 wide or 6 high, one in five beyond)" if thorough else "all widths 1..70 x heights 1..12")
              + " plus the empty picture; expected layout assembled from the implementation's own 1x1 conversions, so the check is independent of the pixel formula")
    ctx.cov["rule"] = ("one picture per (w,h); planes are position-coded for a third of the sizes and random for the rest; "
                       "non-trivial = non-empty picture, distinct by (w,h)")
    ctx.cov["exhaustive"] = True
    if broken and not found:
        ctx.violation({"kind": "unproved", "names": broken, "note": "searched the size grid: no failing input"},
                      "; ".join(broken)[:300], found_input=False)


def replay(ctx, path):
    r = json.load(open(path))
    common.ensure_runners(ctx)
    if r.get("kind") == "yuv-img":
        unh = lambda s: bytes.fromhex(s) if s != "-" else b""
        c = (0, r["width"], r["height"], unh(r["y_hex"]), unh(r["cb_hex"]), unh(r["cr_hex"]))
        p = ctx.path("replay.cases")
        write_cases(p, [c])
        li = common.impl(["yuv-img", p])[0]
        _, w, h, y, cb, cr = c
        bw = (w + 1) // 2
        tr = set((y[x + yy * w], cb[x // 2 + (yy // 2) * bw], cr[x // 2 + (yy // 2) * bw]) for yy in range(h) for x in range(w))
        want = layout_expected(w, h, y, cb, cr, impl_px_table(ctx, tr))
        fs = li.split()
        got = (bytes.fromhex(fs[2]) if fs[2] != "-" else b"") if fs[1] == "ok" else None
        print("implementation:", li[:120])
        bad = got is None or got != want
        print("REPRODUCED" if bad else "NOT-REPRODUCED")
        return 1 if bad else 0
    print("replay names broken obligations only:", r.get("names"))
    return 1
