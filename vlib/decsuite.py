"""Shared helpers for the decoder-history correspondence suites (C01-C05, C13, C15, C17)."""
import os, re, subprocess, time
from vlib import common
from vlib.common import hexs


def case_line(idx, opts, ops):
    return "%d %d %s" % (idx, opts, " ".join(ops))


def D(b):
    return "D:" + hexs(b)


def Sop(b):
    return "S:" + hexs(b)


def run_model(ctx, name, cases, full=False):
    p = ctx.path(name + ".cases")
    with open(p, "w") as f:
        for c in cases:
            f.write(case_line(*c) + "\n")
    # shard over 16 processes: the model is the slow side
    n = len(cases)
    k = min(16, max(1, n // 4))
    shards = [[] for _ in range(k)]
    for i, c in enumerate(cases):
        shards[i % k].append(c)
    procs = []
    for j, sh in enumerate(shards):
        sp = ctx.path("%s.shard%d" % (name, j))
        with open(sp, "w") as f:
            for c in sh:
                f.write(case_line(*c) + "\n")
        # output to files, not pipes: a full pipe would stall every shard but the one being read
        fo = open(sp + ".out", "wb")
        fe = open(sp + ".err", "wb")
        procs.append((sp, subprocess.Popen(["sh", "-c", "ulimit -s unlimited 2>/dev/null; exec \"$0\" \"$@\"", common.DRIVER, "decode", "full" if full else "hash", sp],
                                           stdout=fo, stderr=fe, env=common.ENV), fo, fe))
    out = {}
    for sp, pr, fo, fe in procs:
        pr.wait()
        fo.close()
        fe.close()
        o = open(sp + ".out", "rb").read()
        e = open(sp + ".err", "rb").read()
        os.remove(sp + ".out")
        os.remove(sp + ".err")
        if pr.returncode != 0:
            raise RuntimeError("model driver failed on %s: %s" % (sp, e.decode()[-400:]))
        for line in o.decode().split("\n"):
            if line.strip():
                idx, rest = line.split(" ", 1) if " " in line else (line, "")
                out[int(idx)] = [t.strip() for t in rest.split("|")[1:]]
        os.remove(sp)
    return out


def run_impl(ctx, name, cases, full=False, profile="checked", per_case_timeout=10.0):
    """Runs the harness; a hang or an abort of the process is attributed to the case being run
    ('hang' / 'abort' token) and the run continues after it."""
    out = {}
    todo = list(cases)
    while todo:
        p = ctx.path(name + ".impl.cases")
        with open(p, "w") as f:
            for c in todo:
                f.write(case_line(*c) + "\n")
        budget = 30 + per_case_timeout * 0.02 * len(todo) + per_case_timeout
        t0 = time.time()
        try:
            pr = subprocess.run([common.harness_bin(profile), "decode", "full" if full else "hash", p],
                                stdout=subprocess.PIPE, stderr=subprocess.PIPE, timeout=budget, env=common.ENV)
            txt, rc, timed_out = pr.stdout.decode(), pr.returncode, False
        except subprocess.TimeoutExpired as e:
            txt, rc, timed_out = (e.stdout or b"").decode(), -1, True
        lines = [l for l in txt.split("\n") if l.strip()]
        if timed_out and lines and not txt.endswith("\n"):
            lines = lines[:-1]
        for line in lines:
            idx, rest = line.split(" ", 1) if " " in line else (line, "")
            out[int(idx)] = [t.strip() for t in rest.split("|")[1:]]
        done = len(lines)
        if done >= len(todo):
            break
        # the case after the last complete line hung or killed the process
        bad = todo[done]
        out[bad[0]] = ["hang" if timed_out else "abort(rc=%d)" % rc]
        todo = todo[done + 1:]
    return out


TOK = re.compile(r"^(ok|err:\w+|cleanup|panic\S*|outoffuel|hang|abort\S*|bits\S*|excluded|skipped-big)(?: L(\[.*?\]|-) R(\[.*?\]|-))?(?: next=(\S+))?$")


def parse_tok(t):
    m = TOK.match(t)
    if not m:
        return {"cls": t, "last": None, "ref": None, "next": None, "raw": t}
    return {"cls": m.group(1), "last": m.group(2), "ref": m.group(3), "next": m.group(4), "raw": t}


def cls_kind(c):
    if c.startswith("ok"):
        return "ok"
    if c.startswith("err"):
        return "err"
    if c.startswith("panic") or c.startswith("hang") or c.startswith("abort") or c == "outoffuel":
        return "crash"
    return c


def planes_of(last):
    """from a full-mode L[...] token: (w, h, cw, Y, Cb, Cr) as bytes"""
    m = re.match(r"^\[(.*) (\d+)x(\d+)/(\d+) (\S+) (\S+) (\S+)\]$", last)
    unh = lambda s: bytes.fromhex(s) if s != "-" else b""
    return {"hdr": m.group(1), "w": int(m.group(2)), "h": int(m.group(3)), "cw": int(m.group(4)),
            "Y": unh(m.group(5)), "Cb": unh(m.group(6)), "Cr": unh(m.group(7))}


def hdr_field(hdr, name):
    m = re.search(r"(?:^| )%s=(\S+)" % name, hdr)
    return m.group(1) if m else None


_HASH = __import__("re").compile(r"\b[0-9a-f]{16}\b")


def shape(tok):
    """a trace token without content hashes: result class, error kind, header fields, plane sizes, reader position"""
    return _HASH.sub("#", tok)


def same_shape(model_toks, impl_toks, upto_crash=False):
    """as same_trace, comparing shapes only: for properties that do not speak about sample values.
    upto_crash: stop at the first call on which the implementation panicked, hung or aborted (a crash is C01's and C13's
    business; the properties that relate runs of the implementation to each other have nothing to compare there)"""
    if model_toks is None or impl_toks is None:
        return False
    m, i = [shape(t) for t in model_toks], [shape(t) for t in impl_toks]
    if upto_crash:
        cut = next((j for j, t in enumerate(i) if t.split(" ")[0].split(":")[0] in ("panic", "hang", "abort", "missing")), None)
        if cut is not None:
            m, i = m[:cut], i[:cut]
    return same_trace(m, i)


def same_trace(model_toks, impl_toks):
    """model = implementation, up to the first op the model skipped for size (those run on the implementation only)"""
    if model_toks is None or impl_toks is None:
        return False
    cut = next((j for j, t in enumerate(model_toks) if t.startswith("skipped-big")), None)
    if cut is not None:
        return model_toks[:cut] == impl_toks[:cut]
    return model_toks == impl_toks
