"""C16 — Deblocking accepts every image size and strength; strength table is Table J.2."""
import json
from vlib import common, imggen
from vlib.common import hexs

THEOREMS = ["C16_deblock_total", "C16_table_J2", "C16_strength_in_range"]
BRIDGES = ["BridgeDeblock"]


def gen_cases(ctx, wmax, hmax, per_size_strengths):
    """All widths 1..wmax x heights 0..hmax; `per_size_strengths` strengths per size (12 = all)."""
    cases = []
    rng = ctx.rng.fork("c16-img")
    idx = 0
    for w in range(1, wmax + 1):
        for h in range(0, hmax + 1):
            if per_size_strengths >= 12:
                ss = list(range(1, 13))
            else:
                ss = sorted(set(1 + (w * 7 + h * 3 + k * 5) % 12 for k in range(per_size_strengths)))
            for s in ss:
                kind = imggen.KINDS[(w + h + s) % len(imggen.KINDS)]
                data = imggen.content(rng, w, h, kind)
                cases.append((idx, w, h, s, data))
                idx += 1
    return cases


def write_cases(path, cases):
    with open(path, "w") as f:
        for (i, w, h, s, d) in cases:
            f.write("%d %d %d %d %s\n" % (i, w, h, s, hexs(d)))


def shape(line):
    """class + output length: all that C16's theorem speaks about"""
    f = line.split()
    return (f[1], (len(f[2]) // 2 if f[2] != "-" else 0) if len(f) > 2 else None)


def run(ctx):
    thorough = ctx.tier == "thorough"
    broken = common.proof_step(ctx, THEOREMS, BRIDGES)
    err = common.ensure_runners(ctx)
    if err:
        ctx.violation({"kind": "build", "names": "harness build against /repo with hooks failed", "log": err[-2000:]},
                      "harness does not build", found_input=False)
        return
    found = False
    # --- suite 1: every size x strength, class and length only
    cases = gen_cases(ctx, 120 if thorough else 40, 120 if thorough else 40, 2 if thorough else 12)
    if thorough:
        cases += [(len(cases) + i, w, h, s, d) for i, (_, w, h, s, d) in enumerate(gen_cases(ctx, 40, 40, 12))]
    p = ctx.path("img.cases")
    write_cases(p, cases)
    mo = common.model(["deblock-img", p])
    io = common.impl(["deblock-img", p])
    by = {c[0]: c for c in cases}
    nontriv = set()
    for lm, li in zip(mo, io):
        i = int(lm.split()[0])
        _, w, h, s, d = by[i]
        sm, si = shape(lm), shape(li)
        if w >= 1 and (h >= 10 or w >= 10):
            nontriv.add((w, h, s))
        # spec for C16: ok and same length, for every w>=1, h>=0, s in 1..12
        if si != ("ok", w * h):
            ctx.violation({"kind": "deblock-img", "width": w, "height": h, "strength": s, "data_hex": hexs(d),
                           "spec": "deblock returns an image of %d bytes without panicking" % (w * h),
                           "implementation": li.split(" ", 1)[1][:80]},
                          "deblock(%dx%d, strength %d) -> %s" % (w, h, s, si[0]))
            found = True
        elif sm != si:
            broken.append("correspondence deblock-img: model %s vs implementation %s at %dx%d s=%d" % (sm, si, w, h, s))
    ctx.count("deblock-img (class+length)", len(cases), nontriv,
              sample={"w": cases[len(cases) // 2][1], "h": cases[len(cases) // 2][2], "s": cases[len(cases) // 2][3],
                      "data_hex": hexs(cases[len(cases) // 2][4])[:64]},
              exhaustive=True, note="all widths 1..%d x heights 0..%d; strengths: %s" %
              ((120, 120, "2 per size + all 12 up to 40x40") if thorough else (40, 40, "all 12")))
    # --- suite 2: the strength table, all 31 entries, implementation vs spec (Table J.2)
    tm = common.model(["strength-table"])
    ti = common.impl(["strength-table"])
    spec = [int(x) for x in [l for l in tm if l.startswith("spec ")][0].split()[1].split(",")]
    mdl = [int(x) for x in [l for l in tm if l.startswith("model ")][0].split()[1].split(",")]
    im = [int(x) for x in ti[0].split()[1].split(",")]
    for q in range(1, 32):
        got = im[q] if q < len(im) else None
        if got != spec[q]:
            ctx.violation({"kind": "strength-table", "quant": q, "spec_table_J2": spec[q], "implementation": got},
                          "QUANT_TO_STRENGTH[%d] = %s, Table J.2 says %d" % (q, got, spec[q]))
            found = True
        elif got != mdl[q]:
            broken.append("correspondence strength-table at q=%d" % q)
    ctx.count("strength-table", 31, [("q", q) for q in range(1, 32)], sample={"q": 31, "strength": im[31] if len(im) > 31 else None},
              exhaustive=True)
    ctx.cov["rule"] = ("deblock-img: one case per (width, height, strength) in the stated grid with seeded content of five kinds; "
                       "non-trivial = at least one filterable edge exists (w>=10 or h>=10), distinct by (w,h,s). "
                       "strength-table: one case per quantizer 1..31.")
    ctx.cov["exhaustive"] = True
    if broken and not found:
        ctx.violation({"kind": "unproved", "names": broken,
                       "note": "searched all sizes/strengths of the grid and all 31 table entries: no failing input"},
                      "; ".join(broken)[:300], found_input=False)


def replay(ctx, path):
    r = json.load(open(path))
    err = common.ensure_runners(ctx)
    if r.get("kind") == "deblock-img":
        p = ctx.path("replay.cases")
        write_cases(p, [(0, r["width"], r["height"], r["strength"], bytes.fromhex(r["data_hex"]) if r["data_hex"] != "-" else b"")])
        li = common.impl(["deblock-img", p])[0]
        ok = shape(li) == ("ok", r["width"] * r["height"])
        print("replay: implementation ->", li[:100])
        print("REPRODUCED" if not ok else "NOT-REPRODUCED")
        return 1 if not ok else 0
    if r.get("kind") == "strength-table":
        ti = common.impl(["strength-table"])
        im = [int(x) for x in ti[0].split()[1].split(",")]
        ok = r["quant"] < len(im) and im[r["quant"]] == r["spec_table_J2"]
        print("replay: implementation table[%d] = %s, spec %d" % (r["quant"], im[r["quant"]] if r["quant"] < len(im) else None, r["spec_table_J2"]))
        print("REPRODUCED" if not ok else "NOT-REPRODUCED")
        return 1 if not ok else 0
    print("replay names broken obligations only:", r.get("names"))
    return 1
