"""C17 — Decoding is deterministic and decoder instances are independent."""
import json, os, re
from vlib import common, decsuite, p_c01
from vlib.decsuite import parse_tok

THEOREMS = ["C17_call_is_a_function", "C17_interleaving_independent", "C17_shared_state_inventory"]
BRIDGES = ["BridgeTables", "BridgeInventory"]


def run(ctx):
    thorough = ctx.tier == "thorough"
    broken = common.proof_step(ctx, THEOREMS, BRIDGES, allowed_axioms=common.REALS_AXIOMS)
    err = common.ensure_runners(ctx)
    if err:
        ctx.violation({"kind": "build", "names": "harness build failed", "log": err[-2000:]}, "harness does not build", found_input=False)
        return
    found = False
    cases, kinds = p_c01.gen_cases(ctx, 2000 if thorough else 400)
    # replicate: the same history on several instances
    rep = []
    for (i, o, ops) in cases:
        rep.append((2 * i, o, ops))
        rep.append((2 * i + 1, o, ops))
    base = decsuite.run_impl(ctx, "c17-seq", rep)
    mo = decsuite.run_model(ctx, "c17-model", cases)
    p = ctx.path("c17.cases")
    with open(p, "w") as f:
        for c in rep:
            f.write(decsuite.case_line(*c) + "\n")
    nontriv = set()
    runs = 0
    for nthreads in ([1, 2, 4, 8, 16] if thorough else [2, 8, 16]):
        for sched in range(10 if thorough else 3):
            seed = ctx.seed * 1000 + nthreads * 31 + sched
            out = common.impl(["threads", "hash", str(nthreads), str(seed), p], timeout=1800)
            runs += 1
            got = {}
            for line in out:
                idx, rest = line.split(" ", 1) if " " in line else (line, "")
                got[int(idx)] = [t.strip() for t in rest.split("|")[1:]]
            for (idx, o, ops) in rep:
                if got.get(idx) != base.get(idx):
                    ctx.violation({"kind": "threads", "class_key": "interleaving", "options": o, "ops": ops, "threads": nthreads, "schedule_seed": seed,
                                   "spec": "an instance stepped in any interleaving with other instances on any number of threads gives what it gives alone",
                                   "implementation": {"alone": [t[:60] for t in base.get(idx, [])], "interleaved": [t[:60] for t in got.get(idx, [])]}},
                                  "history %d differs under %d threads (schedule %d)" % (idx, nthreads, seed))
                    found = True
                else:
                    nontriv.add(idx)
    for (i, o, ops) in cases:
        if base.get(2 * i) != base.get(2 * i + 1):
            ctx.violation({"kind": "threads", "class_key": "replica", "options": o, "ops": ops, "threads": 1, "schedule_seed": 0,
                           "spec": "two instances fed the same history give identical results", "implementation": "replicas differ"},
                          "replicas of history %d differ" % i)
            found = True
        elif not decsuite.same_shape(mo.get(i), base.get(2 * i), upto_crash=True):
            broken.append("correspondence threads: single-instance model trace differs from the implementation on history %d" % i)
    # the same bytes through a source that segments them differently (short reads of 1..3 bytes, as a pipe, a socket
    # or a chained reader may deliver them): the trace must not depend on the segmentation
    seg = []
    nseg = 0
    for (i, o, ops) in cases[: (600 if thorough else 150)]:
        ops2 = [("S:" + op[2:]) if op.startswith("D:") else op for op in ops]
        if not any(op.startswith("S:") for op in ops2):
            continue
        seg.append((3 * i, o, ops2))
        seg.append((3 * i + 1, o, ["M:%d" % (1 + (ctx.seed * 7919 + i) % 1000003)] + ops2))
        seg.append((3 * i + 2, o, ["M:%d" % (2 + (ctx.seed * 104729 + 3 * i) % 1000003)] + ops2))
    sg = decsuite.run_impl(ctx, "c17-seg", seg)
    sm = decsuite.run_model(ctx, "c17-seg-model", [c for c in seg if c[0] % 3 == 0])
    for (idx, o, ops) in seg:
        if idx % 3 == 0:
            if not decsuite.same_shape(sm.get(idx), sg.get(idx), upto_crash=True):
                broken.append("correspondence threads: model trace differs from the implementation on streamed history %d" % idx)
            continue
        whole = sg.get(idx - idx % 3)
        part = sg.get(idx, [])[1:]
        nseg += 1
        if whole != part:
            k = next((j for j in range(min(len(whole), len(part))) if whole[j] != part[j]), min(len(whole), len(part)))
            ctx.violation({"kind": "threads", "class_key": "segmentation", "options": o, "ops": ops, "threads": 1, "schedule_seed": 0,
                           "spec": "decoding is a function of the options and the sequence of bytes supplied, however the source hands them out",
                           "implementation": {"whole_reads": [t[:60] for t in whole[k:k + 2]], "short_reads": [t[:60] for t in part[k:k + 2]], "first_differing_call": k}},
                          "history %d decodes differently when the source delivers its bytes in short reads" % (idx // 3))
            found = True
    ctx.count("segmentation (same bytes through a source handing out 1..3 bytes per read)", len(seg), set(c[0] for c in seg if c[0] % 3),
              sample={"ops": [o[:50] for o in seg[1][2]]} if len(seg) > 1 else None,
              note="%d streamed histories x 2 short-read patterns compared with whole reads and with the model" % (len(seg) // 3))
    # a second process: same outputs again
    again = decsuite.run_impl(ctx, "c17-seq2", rep)
    if again != base:
        k = next(i for i in base if again.get(i) != base[i])
        ctx.violation({"kind": "threads", "class_key": "process", "options": rep[0][1], "ops": [], "threads": 1, "schedule_seed": 0,
                       "spec": "same errors and pictures on every run", "implementation": "second process differs on history %d" % k},
                      "second process gives different results")
        found = True
    ctx.count("threads (replicated histories, seeded interleavings with yields, 1..16 threads, second process)", len(rep) * (runs + 2), nontriv,
              sample={"threads": 8, "histories": len(rep), "ops": [o[:50] for o in rep[0][2]]},
              note="%d histories (the C01 generator: valid, corrupt and random inputs, all option sets), each on two instances; %d threaded runs" % (len(cases), runs))
    ctx.cov["rule"] = ("each thread owns the instances assigned to it and steps them in a seeded random interleaving with yields; every instance's trace is compared "
                       "with the trace of the same history run alone and with the model's; non-trivial = history whose interleaved trace was compared, distinct by instance")
    ctx.cov["partial"] = ("a Gallina function cannot exhibit a data race or a scheduler effect: independence is proved for the model and for the syntactic absence of "
                          "shared mutable state; behaviour under real concurrency is evidence from execution; data-race freedom rests on safe Rust")
    if len(broken) > 3:
        broken = broken[:3] + ["... %d more" % (len(broken) - 3)]
    if broken and not found:
        ctx.violation({"kind": "unproved", "names": broken, "note": "no interleaving changed any instance's trace"},
                      "; ".join(broken)[:400], found_input=False)


def replay(ctx, path):
    r = json.load(open(path))
    common.ensure_runners(ctx)
    if r.get("kind") == "threads":
        print(json.dumps(r["implementation"], indent=1)[:1500])
        return 1
    print("replay names broken obligations only:", r.get("names"))
    return 1
