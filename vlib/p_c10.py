"""C10 — The inverse DCT meets the H.263 Annex A accuracy requirements."""
import json, os, subprocess
from concurrent.futures import ThreadPoolExecutor
from vlib import common

THEOREMS = ["C10_dc_blocks_exact", "C10_basis_table", "C10_zero_block", "C10_annexA_sample_in_kernel",
            "C10_full_blocks_accurate", "C10_full_blocks_peak_error",
            "C10_first_row_blocks_accurate", "C10_first_column_blocks_accurate",
            "C10_classified_blocks_peak_error", "C10_decoded_block_accurate"]
BRIDGES = ["BridgeTables"]
VT = "python3-vt"


def run_sharded(ctx, name, cases_path, nshards=16):
    """model and implementation outputs for an idct case file; the model side is sharded"""
    lines = [l for l in open(cases_path).read().split("\n") if l.strip()]
    shards = [lines[i::nshards] for i in range(nshards)]

    def one(k):
        if not shards[k]:
            return []
        p = ctx.path("%s.shard%d" % (name, k))
        open(p, "w").write("\n".join(shards[k]) + "\n")
        out = common.model(["idct", p], timeout=3000)
        os.remove(p)
        return out
    with ThreadPoolExecutor(max_workers=nshards) as ex:
        outs = list(ex.map(one, range(nshards)))
    mo = {}
    for o in outs:
        for l in o:
            mo[int(l.split(" ", 1)[0])] = l
    io = {}
    for l in common.impl(["idct", cases_path], timeout=3000):
        toks = l.split()
        crops = [t for t in toks if t.startswith("crop:")]
        io[int(toks[0])] = " ".join(t for t in toks if not t.startswith("crop:"))
        if crops:
            CROPS.append((name, int(toks[0]), crops[0]))
    return mo, io


CROPS = []          # (suite, block index, first differing sample) reported by the harness for blocks cut by a plane edge


def canon(line):
    # -256 cannot be observed through u8 samples on the implementation side: it shows as -255
    return " ".join("-255" if t == "-256" else t for t in line.split())


def vt(args):
    rc, out, err = common.run_out([VT, os.path.join(common.ROOT, "tools", "annexa.py")] + args, timeout=3000)
    if rc != 0:
        raise RuntimeError("annexa.py failed: " + err[-500:])
    return out


def sparse_cases(ctx, thorough):
    rng = ctx.rng.fork("c10-sparse")
    blocks = []
    for dc in range(-2048, 2048):                      # every DC-only block
        b = [0] * 64
        b[0] = dc
        blocks.append(b)
    amps = [1, -1, 7, -20, 300, -300, 1000, 2047, -2048]
    for pos in range(1, 64):                           # a lone coefficient at every position, with and without DC
        for a in amps:
            for dc in (0, 800):
                b = [0] * 64
                b[pos] = a
                b[0] = dc
                blocks.append(b)
    for _ in range(20000 if thorough else 2500):       # first-row and first-column blocks over the full range
        b = [0] * 64
        row = rng.below(2) == 0
        k = rng.range(1, 8)
        for _ in range(k):
            i = rng.range(0, 7)
            b[i if row else 8 * i] = rng.choice([rng.range(-2048, 2047), rng.range(-300, 300), rng.range(-20, 20)])
        blocks.append(b)
    for _ in range(5000 if thorough else 600):         # sparse two-dimensional blocks
        b = [0] * 64
        for _ in range(rng.range(1, 5)):
            b[rng.below(64)] = rng.choice([rng.range(-2048, 2047), rng.range(-100, 100)])
        blocks.append(b)
    # blocks whose intermediate results cancel exactly: two frequencies carrying equal or opposite coefficients in every
    # row (column) they occupy - e.g. frequencies 0 and 4, whose table entries have equal magnitude, give exactly zero
    # columns after the first pass - in both orientations, with one to eight occupied rows
    for u1 in range(8):
        for u2 in range(u1 + 1, 8):
            for sgn in (1, -1):
                for transpose in (False, True):
                    for _ in range(8 if thorough else 3):
                        b = [0] * 64
                        for v in rng.sample(list(range(8)), rng.range(2, 8)):
                            a = rng.choice([rng.range(-2048, 2047), rng.range(-300, 300), rng.range(-20, 20)]) or 5
                            i1, i2 = (8 * v + u1, 8 * v + u2) if not transpose else (8 * u1 + v, 8 * u2 + v)
                            b[i1] = a
                            b[i2] = max(-2048, min(2047, sgn * a))
                        blocks.append(b)
    return blocks


def run(ctx):
    del CROPS[:]
    thorough = ctx.tier == "thorough"
    broken = common.proof_step(ctx, THEOREMS, BRIDGES, allowed_axioms=common.REALS_AXIOMS + common.PRIMITIVE_AXIOMS,
                               coqchk_admit=("proofs.BasisTable",))
    err = common.ensure_runners(ctx)
    if err:
        ctx.violation({"kind": "build", "names": "harness build failed", "log": err[-2000:]}, "harness does not build", found_input=False)
        return
    found = False
    # ---- suite 1: the Annex A procedure (fixed generator seed 1; further seeds in the thorough tier)
    seeds = [1, 2, 3, 4, 5] if thorough else [1]
    nb = 10000
    for seed in seeds:
        p = ctx.path("annexa_%d.cases" % seed)
        vt(["gen", p, str(nb), str(seed)])
        mo, io = run_sharded(ctx, "annexa%d" % seed, p)
        outp = ctx.path("annexa_%d.impl" % seed)
        open(outp, "w").write("\n".join(io[i] for i in sorted(io)) + "\n")
        r = json.loads(vt(["eval", p, outp]))
        ctx.cov.setdefault("annexA", {})["seed_%d" % seed] = r
        lim = r.get("limits", {})
        for run_ in r.get("runs", [{"error": r.get("error")}]):
            bad = [k for k in ("peak", "pmse", "omse", "pme", "ome") if run_.get(k, 1e9) > lim.get(k, 0)]
            if bad:
                ctx.violation({"kind": "annexA", "class_key": "stats", "generator_seed": seed, "run": run_, "limits": lim,
                               "spec": "H.263 Annex A accuracy limits", "implementation": {k: run_.get(k) for k in bad},
                               "how_to_replay": "tools/annexa.py gen <file> 10000 %d; harness idct <file>; tools/annexa.py eval" % seed},
                              "Annex A run %s (seed %d): %s exceed the limits" % (run_.get("run"), seed, {k: run_.get(k) for k in bad}))
                found = True
        ndiff = sum(1 for i in io if canon(mo.get(i, "")) != canon(io[i]))
        if ndiff:
            broken.append("correspondence idct (Annex A blocks, seed %d): model and implementation differ on %d blocks" % (seed, ndiff))
        ctx.count("annexA procedure seed %d (6 runs x 10 000 blocks: implementation statistics vs the double-precision reference; model = implementation on every block)" % seed,
                  6 * nb, [("seed", seed, k) for k in range(6 * nb)] if seed == 1 else [],
                  sample={"seed": seed, "run0": r["runs"][0] if "runs" in r else r})
    # ---- suite 2: sparse-block shortcuts: all DC-only blocks, lone coefficients, first-row / first-column blocks
    blocks = sparse_cases(ctx, thorough)
    p = ctx.path("sparse.cases")
    with open(p, "w") as f:
        for i, b in enumerate(blocks):
            f.write("%d %s\n" % (i, " ".join(str(v) for v in b)))
    mo, io = run_sharded(ctx, "sparse", p)
    outp = ctx.path("sparse.impl")
    open(outp, "w").write("\n".join(io[i] for i in sorted(io)) + "\n")
    r = json.loads(vt(["peak", p, outp]))
    ctx.cov["sparse_blocks"] = {"blocks": r["blocks"], "worst_peak": r["worst_peak"]}
    for v in r["violations"][:10]:
        ctx.violation({"kind": "idct-block", "class_key": "peak", "coefficients_row_major": v.get("coefficients"), "spec": "peak error <= 1 against the double-precision reference",
                       "implementation": v}, "sparse block %s: peak error %s" % (v.get("block"), v.get("peak_error")))
        found = True
    ndiff = sum(1 for i in io if canon(mo.get(i, "")) != canon(io[i]))
    if ndiff:
        broken.append("correspondence idct (sparse blocks): model and implementation differ on %d blocks" % ndiff)
    ctx.count("idct-block (all 4096 DC-only blocks, a lone coefficient at every position x 9 amplitudes x {no DC, DC}, random first-row / first-column / sparse blocks, blocks with exactly cancelling frequency pairs)",
              len(blocks), [("blk", i) for i in range(len(blocks))], sample={"coefficients": blocks[5000][:16]}, exhaustive=False)
    # blocks cut by a plane edge: the visible samples must equal those of the whole block (reported by the harness)
    for (suite, idx, c) in CROPS[:5]:
        coeffs = None
        try:
            src = ctx.path("sparse.cases") if suite == "sparse" else ctx.path("annexa_%s.cases" % suite.replace("annexa", ""))
            for l in open(src):
                if l.split(" ", 1)[0] == str(idx):
                    coeffs = [int(v) for v in l.split()[1:]]
                    break
        except Exception:
            pass
        ctx.violation({"kind": "idct-block", "class_key": "crop", "coefficients_row_major": coeffs,
                       "spec": "a block cut by the right or bottom edge of the plane shows the same values as the whole block (peak error <= 1 on its visible samples)",
                       "implementation": {"first_difference(w:h:x:y:got:whole-block value)": c}},
                      "block %d of suite %s differs when the plane cuts it: %s" % (idx, suite, c))
        found = True
    ctx.cov["cropped_planes"] = {"plane sizes per block": "8x5 5x8 3x6 8x1 1x8 7x7", "differences": len(CROPS)}
    ctx.cov["rule"] = ("Annex A: blocks from the IEEE-1180 generator (randx seed as stated), double-precision forward DCT, rounding and clipping in numpy; "
                       "the implementation's idct_channel is run through the hook on each coefficient block over three predictions to recover the added value; "
                       "every block is non-trivial and distinct by construction")
    ctx.cov["tests_not_proofs"].append("the Annex A statistics of the full 60 000-block run are computed on the implementation's (= the model's) outputs by execution; "
                                       "in the kernel only a sample of the same blocks is evaluated (theorem C10_annexA_sample_in_kernel)")
    if broken and not found:
        ctx.violation({"kind": "unproved", "names": broken, "note": "Annex A limits hold and no sparse block exceeds peak error 1"},
                      "; ".join(broken)[:400], found_input=False)


def replay(ctx, path):
    r = json.load(open(path))
    common.ensure_runners(ctx)
    if r.get("kind") == "idct-block":
        p = ctx.path("replay.cases")
        open(p, "w").write("0 %s\n" % " ".join(str(v) for v in r["coefficients_row_major"]))
        out = common.impl(["idct", p])
        crop = [t for t in out[0].split() if t.startswith("crop:")]
        if r.get("class_key") == "crop" or crop:
            print("cropped planes:", crop or "no difference")
            print("REPRODUCED" if crop else "NOT-REPRODUCED")
            return 1 if crop else 0
        outp = ctx.path("replay.out")
        open(outp, "w").write(out[0] + "\n")
        res = json.loads(vt(["peak", p, outp]))
        print(res)
        bad = bool(res["violations"])
        print("REPRODUCED" if bad else "NOT-REPRODUCED")
        return 1 if bad else 0
    print(json.dumps(r.get("run") or r.get("names"))[:600], r.get("how_to_replay", ""))
    return 1
