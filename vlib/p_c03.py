"""C03 — Predicted pictures equal motion-compensated reference plus residual."""
import json
from vlib import common, decsuite, picgen, refdec, h263spec as S
from vlib.common import hexs
from vlib.decsuite import D, parse_tok, cls_kind, planes_of

THEOREMS = ["C03_early_end_copies_reference", "C03_early_end_loop", "C03_predicted_picture", "C03_picture_body_roundtrip", "C03_block_prediction", "C03_vector_wrap", "C03_chroma_vector_table", "C03_median", "C03_no_reference_is_an_error", "C03_code_tables", "C03_zero_vector_copies", "C03_predicted_picture_accurate"]
BRIDGES = ["BridgeTables", "BridgeKMv", "BridgeKGather", "BridgePMacroblock", "BridgePBlock", "BridgePMvPred", "BridgePGather", "BridgePLoop", "BridgePNextLoop", "BridgePNext", "BridgePReach"]
SIZES = [(16, 16), (32, 16), (16, 32), (48, 32), (17, 9), (1, 1), (15, 33), (33, 18), (64, 16), (8, 40), (40, 40), (80, 24)]


def gen_cases(ctx, n):
    rng = ctx.rng.fork("c03")
    cases, descs = [], {}
    for i in range(n):
        mode = ["v0", "v1", "std"][i % 3]
        w, h = SIZES[i % len(SIZES)]
        if mode == "std":
            w, h = max(4, (w + 3) // 4 * 4), max(4, (h + 3) // 4 * 4)
        # a high-entropy reference: dense intra picture
        # standard mode: a third with baseline PTYPE headers, a third PLUSPTYPE (custom format) on both pictures, a third
        # PLUSPTYPE on the reference and a predicted picture that does not retransmit format and modes (UFEP = 000)
        plus_i = plus_p = None
        if mode == "std" and (i // 3) % 3 == 1:
            plus_i, plus_p = {}, {}
        if mode == "std" and (i // 3) % 3 == 2:
            plus_i, plus_p = {}, {"ufep": 0}
        bi, di = picgen.gen_picture(rng, mode, "I", w, h, quant=rng.range(1, 31), sparse=8, stuffing_p=0, plus=plus_i)
        kind = i % 8
        mbn = ((w + 15) // 16) * ((h + 15) // 16)
        trunc = None
        allow = None
        if kind == 5:
            trunc = rng.below(mbn + 1)                         # early end of data after any macroblock
        if kind == 6:
            allow = [S.INTER4V, S.INTER4VQ]
        if kind == 7:
            allow = [S.INTER, S.INTERQ]
        pt = "D" if (mode != "std" and i % 5 == 0) else "P"
        bp, dp = picgen.gen_picture(rng, mode, pt, w, h, quant=rng.range(1, 31), sparse=rng.choice([1, 4, 8]),
                                    truncate_mbs=trunc, allow=allow, uncoded_p=rng.choice([0, 2, 5]), plus=plus_p)
        dp["truncated"] = trunc is not None
        data_p = bp.to_bytes()
        if trunc is not None:
            # end the data exactly at the last macroblock: the remaining macroblocks are copies
            data_p = bp.to_bytes(pad_bit=1) if False else data_p
        # what the decoder saw before the reference picture is of no concern to the predicted picture: a third of the cases
        # run after other pictures (other sizes, a rejected delivery, an earlier intra / predicted pair)
        pre = [D(x) for x in picgen.history_prefix(rng, mode, w, h)] if i % 3 == 1 else []
        cases.append((i, 0 if mode == "std" else 1, pre + [D(bi.to_bytes()), D(data_p)]))
        descs[i] = (di, dp)
    # prediction without a reference must be rejected
    for j in range(12):
        i = n + j
        mode = ["v0", "v1", "std"][j % 3]
        w, h = (16, 16)
        bp, dp = picgen.gen_picture(rng, mode, "P", w, h, uncoded_p=(0 if j % 2 else 10), stuffing_p=0,
                                    allow=[S.INTER, S.INTERQ, S.INTER4V])
        cases.append((i, 0 if mode == "std" else 1, [D(bp.to_bytes())]))
        descs[i] = (None, dp)
    return cases, descs


def run(ctx):
    thorough = ctx.tier == "thorough"
    broken = common.proof_step(ctx, THEOREMS, BRIDGES, allowed_axioms=common.REALS_AXIOMS + common.PRIMITIVE_AXIOMS, coqchk_admit=("proofs.BasisTable",))
    err = common.ensure_runners(ctx)
    if err:
        ctx.violation({"kind": "build", "names": "harness build failed", "log": err[-2000:]}, "harness does not build", found_input=False)
        return
    found = False
    cases, descs = gen_cases(ctx, 20000 if thorough else 500)
    io = decsuite.run_impl(ctx, "c03", cases, full=True)
    mo = decsuite.run_model(ctx, "c03", cases, full=True)
    nontriv = set()
    hist = {"mb_types": {}, "uncoded": 0, "truncated_pictures": 0, "vectors_outside": 0, "no_reference_cases": 12}
    n_oracle = 0
    for (idx, o, ops) in cases:
        di, dp = descs[idx]
        toks = [parse_tok(t) for t in io.get(idx, ["missing"])]
        same = io.get(idx) == mo.get(idx)
        if di is None:
            # no reference: must be an error (every generated picture here contains a predicted macroblock or is all not-coded)
            if cls_kind(toks[0]["cls"]) != "err":
                ctx.violation({"kind": "inter-picture", "class_key": "no-reference", "options": o, "ops": ops,
                               "spec": "a picture needing prediction when no reference exists is rejected with an error",
                               "implementation": toks[0]["cls"]}, "P picture without reference -> %s" % toks[0]["cls"])
                found = True
            elif not same:
                broken.append("correspondence inter-picture (no reference case %d)" % idx)
            continue
        for mb in dp["mbs"]:
            if mb["kind"] == "coded":
                hist["mb_types"][mb["type"]] = hist["mb_types"].get(mb["type"], 0) + 1
            elif mb["kind"] == "uncoded":
                hist["uncoded"] += 1
        if dp.get("truncated"):
            hist["truncated_pictures"] += 1
        if not same or idx % (2 if thorough and idx < 2000 else 5) == 0 or any(cls_kind(t["cls"]) != "ok" for t in toks):
            n_oracle += 1
            v = None
            toks = toks[-2:]           # the reference picture and the predicted picture (after any earlier history)
            if len(toks) < 2 or toks[0]["cls"] != "ok":
                v = {"problem": "reference picture rejected: %s" % toks[0]["cls"]}
            elif toks[1]["cls"] != "ok":
                v = {"problem": "valid predicted picture rejected: %s" % toks[1]["cls"]}
            else:
                r = planes_of(toks[0]["last"])
                p = planes_of(toks[1]["last"])
                planes, unc = refdec.reconstruct(dp, (r["Y"], r["Cb"], r["Cr"], r["w"], r["h"]))
                v = refdec.compare(planes, unc, (p["Y"], p["Cb"], p["Cr"]))
            if v is not None:
                ctx.violation({"kind": "inter-picture", "class_key": str(v.get("problem", "sample"))[:30], "options": o, "ops": ops,
                               "picture": {k: dp[k] for k in ("mode", "w", "h", "quant", "tr", "ptype")},
                               "spec": "prediction (median predictor + differential wrapped to -16..15.5, chroma = sum/8 with sixteenth rounding, bilinear with upward rounding, edge clamp) + residual",
                               "implementation": v},
                              "predicted picture %s %dx%d: %s" % (dp["mode"], dp["w"], dp["h"], v))
                found = True
                continue
        if not same:
            broken.append("correspondence inter-picture: model and implementation differ on case %d" % idx)
        nontriv.add(idx)
    ctx.cov["input_distribution"] = hist
    ctx.cov["oracle_checked"] = n_oracle
    ctx.count("inter-picture (I then P/D; planes byte for byte model = implementation; implementation vs reference reconstruction on a sample and every mismatch)",
              len(cases), nontriv, sample={"mode": descs[0][1]["mode"], "w": descs[0][1]["w"], "h": descs[0][1]["h"],
                                          "first_mbs": [m.get("type", m["kind"]) for m in descs[0][1]["mbs"][:6]]},
              note="sizes %s; every macroblock-type mix, all 64 differentials per component, truncation after any macroblock, 4-vector-only and 1-vector-only pictures" % (SIZES,))
    ctx.cov["rule"] = ("a dense intra picture followed by a valid predicted (or disposable) picture of the same size; "
                       "non-trivial = both accepted and byte-identical in model and implementation")
    ctx.cov["tests_not_proofs"].append("reference reconstruction (Python) vs implementation: search oracle, a test")
    if len(broken) > 3:
        broken = broken[:3] + ["... %d more" % (len(broken) - 3)]
    if broken and not found:
        ctx.violation({"kind": "unproved", "names": broken, "note": "no picture differs from the reference reconstruction"},
                      "; ".join(broken)[:400], found_input=False)


def replay(ctx, path):
    r = json.load(open(path))
    common.ensure_runners(ctx)
    if r.get("kind") == "inter-picture":
        io = decsuite.run_impl(ctx, "replay", [(0, r["options"], r["ops"])], full=True)
        print("implementation:", " | ".join(t[:200] for t in io[0]))
        print("(re-run ./check C03 with the same VERIF_SEED to re-evaluate the oracle)")
        return 1
    print("replay names broken obligations only:", r.get("names"))
    return 1
