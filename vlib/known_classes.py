"""Class predicates of known findings: a replay is suppressed into a KNOWN-FINDING
line only if it satisfies the predicate named by the entry in known_findings.json."""
