"""C01 — Decoding never crashes or hangs, whatever bytes and history it is given."""
import json
from vlib import common, decsuite, picgen, h263spec as S
from vlib.common import hexs
from vlib.decsuite import D, parse_tok, cls_kind

THEOREMS = ["C01_decode_total", "C01_history_total", "C01_source_total", "C01_source_is_model", "C01_macroblock_progress", "C01_kernels_safe"]
BRIDGES = ["BridgeTables", "BridgePPrologue", "BridgePGather", "BridgePLoop", "BridgePNextLoop", "BridgePNext", "BridgePReach"]

SIZES = [(16, 16), (32, 16), (16, 32), (17, 9), (1, 1), (33, 18), (48, 32), (8, 40), (64, 16)]


def corrupt(rng, data):
    """one corruption of a valid picture's bytes"""
    b = bytearray(data)
    k = rng.below(9)
    if k == 0 and len(b) > 6:                       # flip 1..3 bits after the start code
        for _ in range(rng.range(1, 3)):
            i = rng.range(3, len(b) - 1)
            b[i] ^= 1 << rng.below(8)
        return bytes(b), "bitflip"
    if k == 1 and len(b) > 4:                       # truncate
        return bytes(b[:rng.range(3, len(b) - 1)]), "truncate"
    if k == 2:                                      # surplus data after the last macroblock
        return bytes(b) + rng.bytes(rng.range(1, 40)), "surplus-random"
    if k == 3:                                      # duplicate the macroblock data (surplus valid macroblocks)
        return bytes(b) + bytes(b[5:]), "surplus-copy"
    if k == 4 and len(b) > 8:                       # overwrite a run of bytes
        i = rng.range(3, len(b) - 2)
        n = rng.range(1, min(6, len(b) - i))
        b[i:i + n] = rng.bytes(n)
        return bytes(b), "overwrite"
    if k == 5 and len(b) > 10:                      # drop a chunk from the middle
        i = rng.range(4, len(b) - 3)
        n = rng.range(1, min(8, len(b) - i))
        del b[i:i + n]
        return bytes(b), "delete"
    if k == 6:                                      # all-ones / all-zero tail
        return bytes(b[:max(4, len(b) // 2)]) + bytes([rng.choice([0x00, 0xFF])] * rng.range(1, 30)), "flat-tail"
    if k == 7 and len(b) > 8:                       # insert random bytes
        i = rng.range(4, len(b) - 1)
        b[i:i] = rng.bytes(rng.range(1, 6))
        return bytes(b), "insert"
    return rng.bytes(3) + bytes(b), "prefix-garbage"


def sorenson_with_size(rng, w, h, code, ptype):
    """Sorenson header with explicit size fields (incl. zero) followed by random macroblock data"""
    hb = S.sorenson_header(rng.below(2), rng.below(256), (w, h), ptype, 0, rng.range(1, 31), size_code=code)
    return hb.to_bytes() + rng.bytes(rng.range(0, 60))


def gen_cases(ctx, n):
    rng = ctx.rng.fork("c01")
    cases = []
    kinds = {}
    for i in range(n):
        o = i % 4                      # all four option combinations
        sor = o & 1
        mode = rng.choice(["v0", "v1"]) if sor else "std"
        ops = []
        kind = []
        # prior history
        hist = rng.below(8)
        w, h = rng.choice(SIZES)
        if mode == "std":
            w, h = max(4, (w + 3) // 4 * 4), max(4, (h + 3) // 4 * 4)
        umv = (mode == "std" and rng.below(3) == 0)
        plus = {"umv": 1, "uui": 2} if umv else None

        def pic(pt, ww=None, hh=None, **kw):
            b, _ = picgen.gen_picture(rng, mode, pt, ww or w, hh or h, plus=plus, umv=(umv and pt != "I"), **kw)
            return b.to_bytes()
        if hist >= 2:
            ops.append(D(pic("I"))); kind.append("I")
        if hist >= 4:
            ops.append(D(pic("P"))); kind.append("P")
        if hist == 6:
            w2, h2 = rng.choice(SIZES)
            if mode == "std":
                w2, h2 = max(4, (w2 + 3) // 4 * 4), max(4, (h2 + 3) // 4 * 4)
            ops.append(D(pic("I", w2, h2))); kind.append("I-resized")
        if hist == 7:
            ops.append(D(rng.bytes(rng.range(1, 30)))); kind.append("garbage")
        # the input under test
        t = rng.below(12)
        if t < 3:
            pt = rng.choice(["I", "P", "P", "D"]) if sor else rng.choice(["I", "P", "P"])
            ops.append(D(pic(pt))); kind.append("valid-" + pt)
        elif t < 8:
            pt = rng.choice(["I", "P", "D"]) if sor else rng.choice(["I", "P"])
            c, how = corrupt(rng, pic(pt))
            ops.append(D(c)); kind.append("corrupt-%s-%s" % (pt, how))
        elif t == 8:
            ops.append(D(b"\x00\x00\x80" + rng.bytes(rng.range(0, 50)))); kind.append("random-after-startcode")
        elif t == 9:
            ww = rng.choice([0, 0, 1, 15, 16, 17, 255, 256, 1000])
            hh = rng.choice([0, 1, 16, 17, 255, 300])
            if rng.below(2):
                # the ends of the 16-bit size fields, with the other side small enough for the picture to fit in memory
                ww, hh = rng.choice([(65535, 16), (16, 65535), (65535, 1), (1, 65535), (65535, 255), (255, 65535), (65534, 17), (17, 65534),
                                     (4096, 4096), (4097, 4095), (32768, 512), (512, 32768), (65535, 0), (0, 65535), (32767, 3), (3, 32769)])
            code = 0 if (ww < 256 and hh < 256 and rng.below(2)) else 1
            ops.append(D(sorenson_with_size(rng, ww, hh, code, rng.choice(["I", "P"]))))
            kind.append("sorenson-size-%dx%d" % (ww, hh))
        elif t == 10:
            # a predicted picture of another size than the reference
            w2, h2 = rng.choice(SIZES)
            how = rng.below(3)
            if how == 1:
                w2 = w                      # same width, another height (smaller or larger than the reference)
            if how == 2:
                h2 = h                      # same height, another width
            if mode == "std":
                w2, h2 = max(4, (w2 + 3) // 4 * 4), max(4, (h2 + 3) // 4 * 4)
            ops.append(D(pic("P", w2, h2, uncoded_p=0))); kind.append("P-other-size")
        else:
            # a long run of coded macroblocks with large differentials (vector accumulation)
            b, _ = picgen.gen_picture(rng, mode, "P", max(w, 48), max(h, 48) if mode != "std" else 48, plus=plus, umv=umv,
                                      uncoded_p=0, stuffing_p=0, sparse=1, allow=[S.INTER, S.INTER4V])
            ops.append(D(b.to_bytes())); kind.append("P-many-vectors")
        # and a valid continuation
        if rng.below(2):
            ops.append(D(pic(rng.choice(["P", "I"])))); kind.append("then-valid")
        cases.append((i, o, ops))
        for k in kind:
            kk = k.split("-")[0] if k.startswith("sorenson-size") else k
            kinds[kk] = kinds.get(kk, 0) + 1
    return cases, kinds


def run(ctx):
    thorough = ctx.tier == "thorough"
    # proofs.FloatCeil evaluates Flocq on all 65 536 u16 values inside the kernel; coqchk's VM-less reduction would take hours
    broken = common.proof_step(ctx, THEOREMS, BRIDGES, allowed_axioms=common.REALS_AXIOMS, coqchk_admit=("proofs.FloatCeil",))
    err = common.ensure_runners(ctx)
    if err:
        ctx.violation({"kind": "build", "names": "harness build failed", "log": err[-2000:]}, "harness does not build", found_input=False)
        return
    found = False
    corpus = load_corpus()
    cases, kinds = gen_cases(ctx, 60000 if thorough else 3000)
    cases = corpus + cases
    mo = decsuite.run_model(ctx, "c01", cases)
    io = decsuite.run_impl(ctx, "c01", cases)
    nontriv = set()
    classes = {}
    for (idx, o, ops) in cases:
        tm = [parse_tok(t) for t in mo.get(idx, [])]
        ti = [parse_tok(t) for t in io.get(idx, ["missing"])]
        for k, t in enumerate(ti):
            classes[cls_kind(t["cls"])] = classes.get(cls_kind(t["cls"]), 0) + 1
            if cls_kind(t["cls"]) == "crash":
                ctx.violation({"kind": "decode-history", "class_key": "crash", "options": o, "ops": ops[:k + 1],
                               "failing_op": k, "spec": "every decode call returns Ok or Err; it never panics, overflows, indexes out of bounds, divides by zero or hangs",
                               "implementation": t["raw"][:100]},
                              "decode call %d of history %d (options %d) -> %s" % (k, idx, o, t["cls"]))
                found = True
                break
        else:
            # ops from a 'skipped-big' token on are run on the implementation only (crash check)
            cut = next((j for j, t in enumerate(tm) if t["cls"] == "skipped-big"), None)
            if cut is not None:
                tm, ti = tm[:cut], ti[:cut]
            # C01 does not speak about sample values: result class, error kind, header, plane sizes and position are compared
            sh = decsuite.shape
            if [sh(t["raw"]) for t in tm] != [sh(t["raw"]) for t in ti]:
                k = next((j for j in range(min(len(tm), len(ti))) if sh(tm[j]["raw"]) != sh(ti[j]["raw"])), min(len(tm), len(ti)))
                broken.append("correspondence decode-history: model and implementation differ at op %d of history %d: model %s / impl %s" %
                              (k, idx, tm[k]["cls"] if k < len(tm) else "-", ti[k]["cls"] if k < len(ti) else "-"))
            if any(t["cls"] == "ok" for t in ti) and any(t["cls"].startswith("err") for t in ti):
                nontriv.add(idx)
    ctx.cov["input_kinds"] = kinds
    ctx.cov["result_classes"] = classes
    ctx.count("decode-history (crash freedom; model = implementation on class, state and position)", len(cases), nontriv,
              sample={"options": cases[len(corpus)][1], "ops": [o[:60] + "..." for o in cases[len(corpus)][2]]},
              note="%d corpus histories first; then seeded histories: prior history x input kind x option set; 10 s watchdog per batch element" % len(corpus))
    ctx.cov["rule"] = ("histories of 1-4 decode calls on one decoder, each call from its own reader; all four option sets in rotation; "
                       "input kinds listed in input_kinds (valid I/P/D, nine corruptions of valid pictures, random bytes behind a start code, "
                       "explicit size fields incl. zero, predicted picture of another size, long vector accumulation incl. UMV+PLUSPTYPE); "
                       "non-trivial = history with at least one accepted and one rejected picture")
    if len(broken) > 3:
        broken = broken[:3] + ["... %d more" % (len(broken) - 3)]
    if broken and not found:
        ctx.violation({"kind": "unproved", "names": broken, "note": "no crashing input among %d histories" % len(cases)},
                      "; ".join(broken)[:400], found_input=False)


def load_corpus():
    import os
    p = os.path.join(common.ROOT, "corpus", "c01.cases")
    out = []
    if os.path.exists(p):
        for i, line in enumerate(open(p)):
            f = line.split()
            if f:
                out.append((900000 + i, int(f[0]), f[1:]))
    return out


def replay(ctx, path):
    r = json.load(open(path))
    common.ensure_runners(ctx)
    if r.get("kind") == "decode-history":
        cases = [(0, r["options"], r["ops"])]
        io = decsuite.run_impl(ctx, "replay", cases)
        toks = io.get(0, ["missing"])
        print("implementation:", " | ".join(t[:80] for t in toks))
        bad = any(cls_kind(parse_tok(t)["cls"]) == "crash" for t in toks)
        print("REPRODUCED" if bad else "NOT-REPRODUCED")
        return 1 if bad else 0
    print("replay names broken obligations only:", r.get("names"))
    return 1
