"""C14 — The bit reader delivers each bit once, in order, under any mix of operations."""
import itertools, json
from vlib import common
from vlib.common import hexs

THEOREMS = ["C14_concrete_refines_bit_list", "C14_refines_from_any_state", "C14_msb_first", "C14_signed_is_twos_complement", "C14_fixed_read_msb_first", "C14_read_consumes_exactly", "C14_start_code_window"]
BRIDGES = []

TYPES = ["u8", "u16", "u32", "i16", "i32"]
WIDTHS = [0, 1, 7, 8, 9, 16, 17, 31, 32]


def alphabet(reduced=False):
    ops = []
    ws = WIDTHS if not reduced else [0, 1, 8, 9, 17]
    for t in (TYPES if not reduced else ["u8", "i16", "u32"]):
        for n in ws:
            for k in ("P", "R", "PS", "RS"):
                ops.append("%s:%s:%d" % (k, t, n))
    for n in ([0, 1, 7, 8, 9, 17] if not reduced else [1, 9]):
        ops.append("K:%d" % n)
    ops += ["B", "V:0", "V:1", "M", "SC:0", "SC:1", "C"]
    return ops


SOURCES = ["-", "00", "01", "80", "ff", "a5", "0000", "0001", "8000", "ffa5", "a5ff", "0080", "00008000", "00000800",
           "0000008000", "1380004000", "0000010000", "ff721c1f", "a53c7e"]


def spec_check(src_hex, toks, ops):
    """an independent reference reader (bit list + cursor) for flat (wrapper-free) op sequences.
    Returns the expected token list."""
    data = bytes.fromhex(src_hex) if src_hex != "-" else b""
    bits = [(b >> (7 - i)) & 1 for b in data for i in range(8)]
    pos = 0
    out = []
    W = {"u8": 8, "u16": 16, "u32": 32, "i16": 16, "i32": 32}

    def val(n, p):
        v = 0
        for b in bits[p:p + n]:
            v = (v << 1) | b
        return v
    for op in ops:
        f = op.split(":")
        k = f[0]
        if k in ("P", "R", "PS", "RS"):
            t, n = f[1], int(f[2])
            if n > W[t]:
                out.append("err:Internal")
                continue
            if len(bits) - pos < n:
                out.append("err:Eof")
                continue
            v = val(n, pos)
            if k in ("PS", "RS") and n > 0:
                if v >> (n - 1):
                    v -= 1 << n
                    if t.startswith("u"):
                        v += 1 << W[t]
            elif t.startswith("i") and n == W[t] and v >> (n - 1):
                v -= 1 << n
            out.append("v=%d" % v)
            if k in ("R", "RS"):
                pos += n
        elif k == "K":
            n = int(f[1])
            if len(bits) - pos < n:
                out.append("err:Eof")
            else:
                out.append("v=0")
                pos += n
        elif k == "B":
            if len(bits) - pos < 8:
                out.append("err:Eof")
            else:
                out.append("v=%d" % val(8, pos))
                pos += 8
        elif k == "C":
            out.append("u")
        elif k == "SC":
            in_error = f[1] == "1"
            maxskip = (8 - pos % 8) % 8
            res = None
            j = 0
            while True:
                if len(bits) - (pos + j) < 17:
                    res = "err:Eof"
                    break
                if val(17, pos + j) == 1:
                    res = "some=%d" % j
                    break
                if not in_error and j > maxskip:
                    res = "none"
                    break
                j += 1
            out.append(res)
        else:
            return None          # VLC / UMV: model only
    out.append("rest=" + ("".join(str(b) for b in bits[pos:pos + 64]) or "-"))
    return out


def random_tree(rng, depth, alpha):
    n = rng.range(1, 8 if depth else 30)
    out = []
    for _ in range(n):
        r = rng.below(14)
        if r == 0 and depth < 3:
            out += ["T["] + random_tree(rng, depth + 1, alpha) + ["]:%d" % rng.below(2)]
        elif r == 1 and depth < 3:
            out += ["U["] + random_tree(rng, depth + 1, alpha) + ["]:%d" % rng.below(3)]
        elif r == 2 and depth < 3:
            out += ["L["] + random_tree(rng, depth + 1, alpha) + ["]:0"]
        elif r == 3:
            out.append("G:" + hexs(rng.bytes(rng.range(1, 3))))
        else:
            out.append(rng.choice(alpha))
    return out


def run(ctx):
    thorough = ctx.tier == "thorough"
    broken = common.proof_step(ctx, THEOREMS, BRIDGES)
    err = common.ensure_runners(ctx)
    if err:
        ctx.violation({"kind": "build", "names": "harness build failed", "log": err[-2000:]}, "harness does not build", found_input=False)
        return
    found = False
    alpha = alphabet()
    cases = []
    # bounded-exhaustive: all sequences of length <= 2 over the full alphabet x all short sources
    seqs = [[a] for a in alpha] + [[a, b] for a in alpha for b in alpha]
    if thorough:
        red = alphabet(reduced=True)
        seqs += [list(x) for x in itertools.product(red, repeat=3)]
    srcs = SOURCES if thorough else SOURCES[:12] + ["00008000", "1380004000"]
    stride = 1 if thorough else 3            # quick: every sequence, a rotating third of the sources
    for i, s in enumerate(seqs):
        for j, src in enumerate(srcs):
            if (i + j) % stride == 0 or len(s) == 1:
                cases.append((src, s))
    n_exh = len(cases)
    rng = ctx.rng.fork("c14")
    for _ in range(100000 if thorough else 3000):
        src = hexs(rng.choice([rng.bytes(rng.range(0, 12)), bytes([0, 0, 0x80 >> rng.below(8)]) + rng.bytes(rng.range(0, 6)),
                               rng.bytes(rng.range(0, 3)) + bytes([0, 0, 1]) + rng.bytes(2)]))
        if rng.below(3) == 0:
            src += "@%d" % (1 + rng.below(1000000))      # the source hands its bytes out in short reads of 1..3 bytes
        cases.append((src, random_tree(rng, 0, alpha)))
    p = ctx.path("reader.cases")
    with open(p, "w") as f:
        for i, (src, ops) in enumerate(cases):
            f.write("%d %s %s\n" % (i, src, " ".join(ops)))
    io = common.impl(["reader", p], timeout=3000)
    mo = common.model(["reader", p], timeout=3000)
    nontriv = set()
    kinds = {}
    for i, (src, ops) in enumerate(cases):
        ti = io[i].split(" ")[1:]
        tm = mo[i].split(" ")[1:]
        flat = not any(o[0] in "TULGVM" for o in ops)
        want = spec_check(src.split("@")[0], ti, ops) if flat else None
        for o in ops:
            kinds[o.split(":")[0]] = kinds.get(o.split(":")[0], 0) + 1
        if any(t == "panic" for t in ti):
            ctx.violation({"kind": "reader-ops", "class_key": "panic", "source_hex": src, "ops": ops, "spec": want or tm, "implementation": ti},
                          "reader operations %s on %s panic" % (ops[:4], src))
            found = True
        elif want is not None and ti != want:
            k = next((j for j in range(min(len(ti), len(want))) if ti[j] != want[j]), 0)
            ctx.violation({"kind": "reader-ops", "class_key": "value", "source_hex": src, "ops": ops, "spec": want, "implementation": ti},
                          "reader operations %s on %s: op %d gives %s, a bit list with a cursor gives %s" % (ops[:4], src, k, ti[k], want[k]))
            found = True
        elif ti != tm:
            if want is None:
                # wrappers / VLC / UMV / growth: the concrete-reader model is the reference
                k = next((j for j in range(min(len(ti), len(tm))) if ti[j] != tm[j]), 0)
                ctx.violation({"kind": "reader-ops", "class_key": "tree", "source_hex": src, "ops": ops, "spec": tm, "implementation": ti},
                              "reader operation tree on %s: token %d is %s, the reader model gives %s" % (src, k, ti[k] if k < len(ti) else None, tm[k] if k < len(tm) else None))
                found = True
            else:
                broken.append("correspondence reader-ops: model differs from implementation on %s %s" % (src, ops[:4]))
        if any(t.startswith("v=") for t in ti) and any(t.startswith("err") or "err" in t for t in ti):
            nontriv.add((src, tuple(ops)))
    ctx.cov["op_kinds"] = kinds
    ctx.count("reader-ops (public H263Reader API vs the concrete-reader model; flat sequences also vs an independent bit-list reader)",
              len(cases), nontriv, sample={"source_hex": cases[n_exh + 1][0], "ops": cases[n_exh + 1][1][:12]},
              note="%d bounded-exhaustive cases (all sequences of length <= 2%s over a %d-letter alphabet: 5 types x widths %s x peek/read/signed, skips, u8, VLC, UMV, start code, commit) + %d random trees with nested transactions, unions, look-aheads and source growth, a third of them over a source that hands out short reads" %
              (n_exh, " and <= 3 on the reduced alphabet" if thorough else "", len(alpha), WIDTHS, len(cases) - n_exh))
    ctx.cov["rule"] = "non-trivial = at least one successful and one failed operation in the sequence; distinct by (source, ops)"
    if len(broken) > 3:
        broken = broken[:3] + ["... %d more" % (len(broken) - 3)]
    if broken and not found:
        ctx.violation({"kind": "unproved", "names": broken, "note": "no operation sequence misbehaves"},
                      "; ".join(broken)[:400], found_input=False)


def replay(ctx, path):
    r = json.load(open(path))
    common.ensure_runners(ctx)
    if r.get("kind") == "reader-ops":
        p = ctx.path("replay.cases")
        open(p, "w").write("0 %s %s\n" % (r["source_hex"], " ".join(r["ops"])))
        ti = common.impl(["reader", p])[0].split(" ")[1:]
        print("implementation:", ti)
        print("spec:          ", r["spec"])
        bad = ti != r["spec"]
        print("REPRODUCED" if bad else "NOT-REPRODUCED")
        return 1 if bad else 0
    print("replay names broken obligations only:", r.get("names"))
    return 1
