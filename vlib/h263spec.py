"""Bit-level encoders for H.263 / Sorenson Spark pictures, from my own transcription of
H.263 (01/2005) Tables 7, 8, 13, 14, 16 and clause 5 (NOT derived from the crate's trees).
Used by the generators of the correspondence suites; `check_tables_against_source()`
compares the transcription with the trees regenerated from /repo."""

# ---------------------------------------------------------------- bit writer
class Bits:
    def __init__(self):
        self.b = []

    def put(self, value, n):
        for i in range(n - 1, -1, -1):
            self.b.append((value >> i) & 1)
        return self

    def code(self, s):
        for c in s:
            if c in "01":
                self.b.append(int(c))
        return self

    def extend(self, other):
        self.b.extend(other.b if isinstance(other, Bits) else other)
        return self

    def __len__(self):
        return len(self.b)

    def to_bytes(self, pad_bit=0):
        b = list(self.b)
        while len(b) % 8:
            b.append(pad_bit)
        out = bytearray()
        for i in range(0, len(b), 8):
            v = 0
            for x in b[i:i + 8]:
                v = (v << 1) | x
            out.append(v)
        return bytes(out)


# ---------------------------------------------------------------- Table 7 / 8: MCBPC
INTER, INTERQ, INTER4V, INTRA, INTRAQ, INTER4VQ = "Inter", "InterQ", "Inter4V", "Intra", "IntraQ", "Inter4Vq"
MCBPC_I = {  # (type, cb, cr) -> code
    (INTRA, 0, 0): "1", (INTRA, 0, 1): "001", (INTRA, 1, 0): "010", (INTRA, 1, 1): "011",
    (INTRAQ, 0, 0): "0001", (INTRAQ, 0, 1): "000001", (INTRAQ, 1, 0): "000010", (INTRAQ, 1, 1): "000011",
}
MCBPC_STUFFING = "000000001"
MCBPC_P = {
    (INTER, 0, 0): "1", (INTER, 0, 1): "0011", (INTER, 1, 0): "0010", (INTER, 1, 1): "000101",
    (INTERQ, 0, 0): "011", (INTERQ, 0, 1): "0000111", (INTERQ, 1, 0): "0000110", (INTERQ, 1, 1): "000000101",
    (INTER4V, 0, 0): "010", (INTER4V, 0, 1): "0000101", (INTER4V, 1, 0): "0000100", (INTER4V, 1, 1): "00000101",
    (INTRA, 0, 0): "00011", (INTRA, 0, 1): "00000100", (INTRA, 1, 0): "00000011", (INTRA, 1, 1): "0000011",
    (INTRAQ, 0, 0): "000100", (INTRAQ, 0, 1): "000000100", (INTRAQ, 1, 0): "000000011", (INTRAQ, 1, 1): "000000010",
    (INTER4VQ, 0, 0): "00000000010", (INTER4VQ, 0, 1): "0000000001100", (INTER4VQ, 1, 0): "0000000001110",
    (INTER4VQ, 1, 1): "0000000001111",
}
# Table 13: CBPY, intra pattern Y1Y2Y3Y4 -> code (inter macroblocks use the complement pattern)
CBPY = {
    (0, 0, 0, 0): "0011", (0, 0, 0, 1): "00101", (0, 0, 1, 0): "00100", (0, 0, 1, 1): "1001",
    (0, 1, 0, 0): "00011", (0, 1, 0, 1): "0111", (0, 1, 1, 0): "000010", (0, 1, 1, 1): "1011",
    (1, 0, 0, 0): "00010", (1, 0, 0, 1): "000011", (1, 0, 1, 0): "0101", (1, 0, 1, 1): "1010",
    (1, 1, 0, 0): "0100", (1, 1, 0, 1): "1000", (1, 1, 1, 0): "0110", (1, 1, 1, 1): "11",
}
# Table 12: DQUANT
DQUANT = {-1: "00", -2: "01", 1: "10", 2: "11"}
# Table 14: MVD, magnitude in half-sample units -> (code value, length) without the sign bit
MVTAB = [(1, 1), (1, 2), (1, 3), (1, 4), (3, 6), (5, 7), (4, 7), (3, 7), (11, 9), (10, 9), (9, 9), (17, 10), (16, 10),
         (15, 10), (14, 10), (13, 10), (12, 10), (11, 10), (10, 10), (9, 10), (8, 10), (7, 10), (6, 10), (5, 10),
         (4, 10), (7, 11), (6, 11), (5, 11), (4, 11), (3, 11), (2, 11), (3, 12), (2, 12)]


def mvd_code(h):
    """h: differential in half-sample units, -32..31"""
    assert -32 <= h <= 31
    if h == 0:
        return "1"
    v, n = MVTAB[abs(h)]
    return format(v, "0%db" % n) + ("1" if h < 0 else "0")


def umv_code(v):
    """Table D.3: unrestricted motion vector difference (used with PLUSPTYPE + UMV), |v| < 4096"""
    if v == 0:
        return "1"
    a = abs(v)
    n = a.bit_length() - 1            # a = 2^n + data, data has n bits
    out = "0"
    for i in range(n - 1, -1, -1):
        out += str((a >> i) & 1) + "1"
    return out + ("1" if v < 0 else "0") + "0"


# Table 16: TCOEF (codes without sign bit), events (last, run, level)
_TCOEF_VLC = [(0x2, 2), (0xf, 4), (0x15, 6), (0x17, 7), (0x1f, 8), (0x25, 9), (0x24, 9), (0x21, 10), (0x20, 10), (0x7, 11),
              (0x6, 11), (0x20, 11), (0x6, 3), (0x14, 6), (0x1e, 8), (0xf, 10), (0x21, 11), (0x50, 12), (0xe, 4), (0x1d, 8),
              (0xe, 10), (0x51, 12), (0xd, 5), (0x23, 9), (0xd, 10), (0xc, 5), (0x22, 9), (0x52, 12), (0xb, 5), (0xc, 10),
              (0x53, 12), (0x13, 6), (0xb, 10), (0x54, 12), (0x12, 6), (0xa, 10), (0x11, 6), (0x9, 10), (0x10, 6), (0x8, 10),
              (0x16, 7), (0x55, 12), (0x15, 7), (0x14, 7), (0x1c, 8), (0x1b, 8), (0x21, 9), (0x20, 9), (0x1f, 9), (0x1e, 9),
              (0x1d, 9), (0x1c, 9), (0x1b, 9), (0x1a, 9), (0x22, 11), (0x23, 11), (0x56, 12), (0x57, 12), (0x7, 4), (0x19, 9),
              (0x5, 11), (0xf, 6), (0x4, 11), (0xe, 6), (0xd, 6), (0xc, 6), (0x13, 7), (0x12, 7), (0x11, 7), (0x10, 7),
              (0x1a, 8), (0x19, 8), (0x18, 8), (0x17, 8), (0x16, 8), (0x15, 8), (0x14, 8), (0x13, 8), (0x18, 9), (0x17, 9),
              (0x16, 9), (0x15, 9), (0x14, 9), (0x13, 9), (0x12, 9), (0x11, 9), (0x7, 10), (0x6, 10), (0x5, 10), (0x4, 10),
              (0x24, 11), (0x25, 11), (0x26, 11), (0x27, 11), (0x58, 12), (0x59, 12), (0x5a, 12), (0x5b, 12), (0x5c, 12),
              (0x5d, 12), (0x5e, 12), (0x5f, 12)]
_TCOEF_LEVEL = [1, 2, 3, 4, 5, 6, 7, 8, 9, 10, 11, 12, 1, 2, 3, 4, 5, 6, 1, 2, 3, 4, 1, 2, 3, 1, 2, 3, 1, 2, 3, 1, 2, 3, 1, 2, 1,
                2, 1, 2, 1, 2, 1, 1, 1, 1, 1, 1, 1, 1, 1, 1, 1, 1, 1, 1, 1, 1, 1, 2, 3, 1, 2, 1, 1, 1, 1, 1, 1, 1, 1, 1, 1, 1,
                1, 1, 1, 1, 1, 1, 1, 1, 1, 1, 1, 1, 1, 1, 1, 1, 1, 1, 1, 1, 1, 1, 1, 1, 1, 1, 1, 1]
_TCOEF_RUN = [0, 0, 0, 0, 0, 0, 0, 0, 0, 0, 0, 0, 1, 1, 1, 1, 1, 1, 2, 2, 2, 2, 3, 3, 3, 4, 4, 4, 5, 5, 5, 6, 6, 6, 7, 7, 8, 8,
              9, 9, 10, 10, 11, 12, 13, 14, 15, 16, 17, 18, 19, 20, 21, 22, 23, 24, 25, 26, 0, 0, 0, 1, 1, 2, 3, 4, 5, 6, 7, 8,
              9, 10, 11, 12, 13, 14, 15, 16, 17, 18, 19, 20, 21, 22, 23, 24, 25, 26, 27, 28, 29, 30, 31, 32, 33, 34, 35, 36,
              37, 38, 39, 40]
TCOEF = {}
for _i in range(102):
    TCOEF[(1 if _i >= 58 else 0, _TCOEF_RUN[_i], _TCOEF_LEVEL[_i])] = format(_TCOEF_VLC[_i][0], "0%db" % _TCOEF_VLC[_i][1])
TCOEF_ESCAPE = "0000011"


def tcoef_bits(ev, mode):
    """ev = (form, last, run, level); form: 'short' | 'esc' (8-bit level; standard and Sorenson v0)
    | 'esc7' | 'esc11' (Sorenson v1).  mode: 'std' | 'v0' | 'v1' (for checking only)."""
    form, last, run, level = ev
    b = Bits()
    if form == "short":
        b.code(TCOEF[(last, run, abs(level))]).put(1 if level < 0 else 0, 1)
        return b
    b.code(TCOEF_ESCAPE)
    if form == "esc":
        assert mode in ("std", "v0")
        b.put(last, 1).put(run, 6).put(level & 0xFF, 8)
    elif form == "esc7":
        assert mode == "v1"
        b.put(0, 1).put(last, 1).put(run, 6).put(level & 0x7F, 7)
    elif form == "esc11":
        assert mode == "v1"
        b.put(1, 1).put(last, 1).put(run, 6).put(level & 0x7FF, 11)
    else:
        raise ValueError(form)
    return b


# ---------------------------------------------------------------- headers
SOR_SIZE_CODES = {2: (352, 288), 3: (176, 144), 4: (128, 96), 5: (320, 240), 6: (160, 120)}
SOR_TYPE = {"I": 0, "P": 1, "D": 2}


def sorenson_header(version, tr, size, ptype, deblock, quant, extra=(), size_code=None):
    """size = (w, h).  size_code None: pick 8-bit custom if both < 256 else 16-bit; or force 0/1/2..7."""
    b = Bits().put(1, 17).put(version, 5).put(tr, 8)
    w, h = size
    if size_code is None:
        size_code = 0 if (w < 256 and h < 256) else 1
    b.put(size_code, 3)
    if size_code == 0:
        b.put(w, 8).put(h, 8)
    elif size_code == 1:
        b.put(w, 16).put(h, 16)
    b.put(SOR_TYPE[ptype] if isinstance(ptype, str) else ptype, 2).put(1 if deblock else 0, 1).put(quant, 5)
    for e in extra:
        b.put(1, 1).put(e, 8)
    b.put(0, 1)
    return b


STD_SRCFMT = {"Sub": 1, "Q": 2, "F": 3, "4": 4, "16": 5}
STD_SIZES = {"Sub": (128, 96), "Q": (176, 144), "F": (352, 288), "4": (704, 576), "16": (1408, 1152)}


def std_header(tr, srcfmt, ptype, quant, split=0, doccam=0, freeze=0, umv=0, sac=0, ap=0, pb=0, cpm=None, extra=(),
               trb=0, dbquant=0):
    """baseline PTYPE header (no PLUSPTYPE). ptype 'I' | 'P'."""
    b = Bits().put(1, 17).put(0, 5).put(tr, 8)
    b.put(1, 1).put(0, 1).put(split, 1).put(doccam, 1).put(freeze, 1).put(STD_SRCFMT[srcfmt] if isinstance(srcfmt, str) else srcfmt, 3)
    b.put(0 if ptype == "I" else 1, 1).put(umv, 1).put(sac, 1).put(ap, 1).put(pb, 1)
    b.put(quant, 5)
    if cpm is None:
        b.put(0, 1)
    else:
        b.put(1, 1).put(cpm, 2)
    if pb:
        b.put(trb, 3).put(dbquant, 2)
    for e in extra:
        b.put(1, 1).put(e, 8)
    b.put(0, 1)
    return b


def plus_header(tr, quant, ufep=1, fmt=6, pcf=0, umv=0, sac=0, ap=0, aic=0, df=0, ss=0, rps=0, isd=0, aiv=0, mq=0,
                ptype=0, rpr=0, rru=0, rtype=0, cpm=None, par=1, pwi=3, phi=4, epar=(1, 1), cpcfc=0, etr=0, uui=1,
                sss=0, elnum=None, rlnum=None, rpsmf=4, trpi=None, bci="01", extra=(), split=0, doccam=0, freeze=0,
                trb=0, dbquant=0, opp_tail=8, mpp_tail=1, scalability=False):
    """PLUSPTYPE header. ptype = MPPTYPE picture type code 0..7. uui: 1 -> '1', 2 -> '01'.
    elnum/rlnum only written when `scalability` (negotiated externally)."""
    b = Bits().put(1, 17).put(0, 5).put(tr, 8)
    b.put(1, 1).put(0, 1).put(split, 1).put(doccam, 1).put(freeze, 1).put(7, 3)
    b.put(ufep, 3)
    if ufep == 1:
        b.put(fmt, 3).put(pcf, 1).put(umv, 1).put(sac, 1).put(ap, 1).put(aic, 1).put(df, 1).put(ss, 1).put(rps, 1)
        b.put(isd, 1).put(aiv, 1).put(mq, 1).put(opp_tail, 4)
    b.put(ptype, 3).put(rpr, 1).put(rru, 1).put(rtype, 1).put(mpp_tail, 3)
    if cpm is None:
        b.put(0, 1)
    else:
        b.put(1, 1).put(cpm, 2)
    if ufep == 1 and fmt == 6:
        b.put(par, 4).put(pwi, 9).put(1, 1).put(phi, 9)
        if par == 15:
            b.put(epar[0], 8).put(epar[1], 8)
    if ufep == 1 and pcf:
        b.put(cpcfc, 8)
        b.put(etr, 2)
    if ufep == 1 and umv:
        b.code("1" if uui == 1 else "01")
    if ufep == 1 and ss:
        b.put(sss, 2)
    if scalability:
        b.put(elnum or 0, 4)
        if ufep == 1:
            b.put(rlnum or 0, 4)
    if ufep == 1 and rps:
        b.put(rpsmf, 3)
    if rps:
        if trpi is None:
            b.put(0, 1)
        else:
            b.put(1, 1).put(trpi, 10)
        b.code(bci)
    b.put(quant, 5)
    if ptype == 2:
        b.put(trb, 5 if (ufep == 1 and pcf) else 3).put(dbquant, 2)
    for e in extra:
        b.put(1, 1).put(e, 8)
    b.put(0, 1)
    return b


# ---------------------------------------------------------------- macroblock / block layers
def block_bits(intradc, events, mode):
    b = Bits()
    if intradc is not None:
        b.put(intradc, 8)
    for ev in events:
        b.extend(tcoef_bits(ev, mode))
    return b


def macroblock_bits(pic_type, mb, mode, mvcode=None):
    """mb: {'kind': 'uncoded'|'stuffing'|'coded', 'type', 'cbp': [6 bits], 'dquant', 'mvd': (x,y) half units,
    'mvd234': [(x,y)]*3, 'blocks': [(intradc|None, events)]*6}"""
    b = Bits()
    mvcode = mvcode or mvd_code
    inter_pic = pic_type != "I"
    if mb["kind"] == "uncoded":
        assert inter_pic
        return b.put(1, 1)
    if inter_pic:
        b.put(0, 1)
    if mb["kind"] == "stuffing":
        return b.code(MCBPC_STUFFING)
    t = mb["type"]
    cbp = mb["cbp"]
    tab = MCBPC_P if inter_pic else MCBPC_I
    b.code(tab[(t, cbp[4], cbp[5])])
    intra = t in (INTRA, INTRAQ)
    y = tuple(cbp[:4]) if intra else tuple(1 - v for v in cbp[:4])
    b.code(CBPY[y])
    if t in (INTERQ, INTRAQ, INTER4VQ):
        b.code(DQUANT[mb["dquant"]])
    if not intra:
        b.code(mvcode(mb["mvd"][0])).code(mvcode(mb["mvd"][1]))
    if t in (INTER4V, INTER4VQ):
        for (x, yv) in mb["mvd234"]:
            b.code(mvcode(x)).code(mvcode(yv))
    for k in range(6):
        dc, events = mb["blocks"][k]
        assert (dc is not None) == intra
        assert bool(events) == bool(cbp[k])
        b.extend(block_bits(dc, events, mode))
    return b


# ---------------------------------------------------------------- table cross-check against the source
def leaves_of_tree(tree):
    """tree: list of ('Fork', z, o) | ('End', leaf) -> {code: leaf}"""
    out = {}

    def walk(i, code, depth):
        if depth > 40 or i >= len(tree):
            out[code + "!"] = "BROKEN"
            return
        e = tree[i]
        if e[0] == "End":
            out[code] = e[1]
        else:
            walk(e[1], code + "0", depth + 1)
            walk(e[2], code + "1", depth + 1)
    walk(0, "", 0)
    return out
