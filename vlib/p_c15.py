"""C15 — One decode call consumes exactly one picture of a stream."""
import json
from vlib import common, decsuite, picgen, h263spec as S
from vlib.common import hexs
from vlib.decsuite import D, Sop, parse_tok, cls_kind

THEOREMS = ["C15_following_bits_irrelevant", "C15_source_following_bits_irrelevant", "C15_padding_is_skipped", "C15_two_pictures_one_reader", "C15_header_frame", "C15_macroblock_count_bound", "C15_start_code_window"]
BRIDGES = ["BridgePLoop", "BridgePNextLoop", "BridgePNext", "BridgePReach"]


def gen_cases(ctx, n):
    rng = ctx.rng.fork("c15")
    out = []
    idx = 0
    for i in range(n):
        mode = ["v0", "v1", "std"][i % 3]
        o = 0 if mode == "std" else 1
        npic = rng.range(2, 5)
        w, h = rng.choice([(16, 16), (32, 16), (17, 9), (48, 32), (1, 1), (33, 18)])
        if mode == "std":
            w, h = max(4, (w + 3) // 4 * 4), max(4, (h + 3) // 4 * 4)
        pics = []
        stream = S.Bits()
        for k in range(npic):
            pt = "I" if k == 0 else rng.choice(["P", "P", "I"] + (["D"] if mode != "std" else []))
            if pt == "I" and k > 0 and rng.below(2) and mode != "std":      # standard mode rejects a format change (needs RPRP)
                w2, h2 = rng.choice([(16, 16), (32, 32), (9, 17)])
                if mode == "std":
                    w2, h2 = max(4, (w2 + 3) // 4 * 4), max(4, (h2 + 3) // 4 * 4)
                w, h = w2, h2
            # standard mode: half of the predicted pictures do not retransmit format and modes (PLUSPTYPE with UFEP = 000)
            plus = {"ufep": 0} if (mode == "std" and pt == "P" and rng.below(2)) else None
            # standard mode: a third of the predicted pictures end early (fewer macroblocks than the picture holds): in a stream
            # the loop then meets the padding and the next start code, probes for a resynchronisation point and must leave them
            trunc = None
            if mode == "std" and pt == "P" and rng.below(3) == 0:
                trunc = rng.below(((w + 15) // 16) * ((h + 15) // 16))
            b, d = picgen.gen_picture(rng, mode, pt, w, h, stuffing_p=rng.choice([0, 0, 15]), extra=[] if rng.below(3) else None, plus=plus,
                                      truncate_mbs=trunc)
            pics.append(b)
            stream.extend(b)
            # fewer than eight zero bits up to the next byte boundary
            while len(stream) % 8:
                stream.put(0, 1)
        whole = stream.to_bytes()
        one_reader = (idx, o, [Sop(whole)] + ["R"] * (npic - 1) + ["R"]); idx += 1
        separate = (idx, o, [D(b.to_bytes()) for b in pics]); idx += 1
        # padding 0..7 zero bits after the last macroblock of a lone picture never changes it
        pads = []
        b0 = pics[0]
        for p in range(8):
            bb = S.Bits(); bb.extend(b0); bb.put(0, p)
            pads.append((idx, o, [D(bb.to_bytes(pad_bit=1))])); idx += 1
        out.append((one_reader, separate, pads, npic))
    return out


def pic_of(tok):
    return tok["last"]


def run(ctx):
    thorough = ctx.tier == "thorough"
    # proofs.FloatCeil evaluates Flocq on all 65 536 u16 values inside the kernel; coqchk's VM-less reduction would take hours
    broken = common.proof_step(ctx, THEOREMS, BRIDGES, allowed_axioms=common.REALS_AXIOMS, coqchk_admit=("proofs.FloatCeil",))
    err = common.ensure_runners(ctx)
    if err:
        ctx.violation({"kind": "build", "names": "harness build failed", "log": err[-2000:]}, "harness does not build", found_input=False)
        return
    found = False
    groups = gen_cases(ctx, 10000 if thorough else 300)
    cases = []
    for a, b, pads, n in groups:
        cases += [a, b] + pads
    io = decsuite.run_impl(ctx, "c15", cases)
    mo = decsuite.run_model(ctx, "c15", cases)
    for c in cases:
        if not decsuite.same_shape(mo.get(c[0]), io.get(c[0]), upto_crash=True):      # this property relates runs of the implementation; values are not the tie's business
            broken.append("correspondence picture-stream: model and implementation differ on history %d" % c[0])
    nontriv = set()
    for a, b, pads, n in groups:
        ta = [parse_tok(t) for t in io[a[0]]]
        tb = [parse_tok(t) for t in io[b[0]]]
        problem = None
        for k in range(n):
            if k >= len(ta) or k >= len(tb):
                problem = "history stopped early"
                break
            if tb[k]["cls"] != "ok":
                problem = "picture %d in its own reader was rejected: %s" % (k, tb[k]["cls"])
                break
            if ta[k]["cls"] != "ok":
                problem = "call %d on the shared reader failed with %s although picture %d decodes in its own reader" % (k, ta[k]["cls"], k)
                break
            if pic_of(ta[k]) != pic_of(tb[k]):
                problem = "call %d on the shared reader produced a different picture than picture %d in its own reader" % (k, k)
                break
        if problem is None and len(ta) > n and cls_kind(ta[n]["cls"]) == "ok":
            problem = "an extra call after the last picture succeeded"
        if problem:
            ctx.violation({"kind": "picture-stream", "class_key": problem[:25], "options": a[1], "ops": a[2], "separate_ops": b[2],
                           "spec": "N concatenated pictures (each padded with < 8 zero bits to a byte boundary) decode call after call to the pictures obtained from one reader per picture",
                           "implementation": problem}, problem)
            found = True
        else:
            nontriv.add(a[0])
        base = parse_tok(io[pads[0][0]][0])
        for p, c in enumerate(pads):
            t = parse_tok(io[c[0]][0])
            if t["cls"] != base["cls"] or pic_of(t) != pic_of(base):
                ctx.violation({"kind": "picture-stream", "class_key": "padding", "options": c[1], "ops": c[2], "separate_ops": pads[0][2],
                               "spec": "fewer than eight zero padding bits after the last macroblock never change the decoded picture",
                               "implementation": "with %d zero bits (then ones): %s" % (p, t["cls"])},
                              "%d zero padding bits change the result" % p)
                found = True
    ctx.count("picture-stream (one reader for N pictures vs one reader per picture; 0..7 padding bits)", len(cases), nontriv,
              sample={"options": groups[0][0][1], "ops": [x[:60] for x in groups[0][0][2]]},
              note="%d sequences of 2-5 pictures of mixed types and sizes in Sorenson v0, v1 and standard mode" % len(groups))
    ctx.cov["rule"] = ("sequences: I first, then P / I (with size change) / D; each picture byte-aligned by < 8 zero bits; "
                       "non-trivial = all N pictures accepted in both deliveries and equal")
    if len(broken) > 3:
        broken = broken[:3] + ["... %d more" % (len(broken) - 3)]
    if broken and not found:
        ctx.violation({"kind": "unproved", "names": broken, "note": "no stream decodes differently from its pictures"},
                      "; ".join(broken)[:400], found_input=False)


def replay(ctx, path):
    r = json.load(open(path))
    common.ensure_runners(ctx)
    if r.get("kind") == "picture-stream":
        io = decsuite.run_impl(ctx, "replay", [(0, r["options"], r["ops"]), (1, r["options"], r["separate_ops"])])
        print("one reader:  ", " | ".join(t[:70] for t in io[0]))
        print("own readers: ", " | ".join(t[:70] for t in io[1]))
        return 1
    print("replay names broken obligations only:", r.get("names"))
    return 1
